/-
  Reference semantics: the transition function `step`, `run` with fuel, and the initial state.
-/
import GLua.Spec.Sem

namespace GLua.Sem

/-! ### expressions -/

def stepExpr (m : M) (e : Expr) (env : Env) : Step :=
  match e with
  | .nil => val1 m .nil
  | .tru => val1 m (.bool true)
  | .fls => val1 m (.bool false)
  | .num t => (match floatOfTok t with | some f => val1 m (.num f) | none => unspec "bad number token")
  | .str h => val1 m (.str h)
  | .dots =>
    (match lookup env "..." with
     | some c => (match m.cell c with
       | .tbl tid => (match natOfFloat? ((numOf? ((m.tget tid).get (.str (hx "n")))).getD 0) with
         | some n => vals m (m.unpackN tid 1 n.toNat)
         | none => vals m [])
       | _ => vals m [])
     | none => unspec "`...` outside a vararg function")
  | .var n =>
    (match lookup env n with
     | some c => val1 m (m.cell c)
     | none => goto_ m (.index (.tbl m.fenvId) (sv n) 0))
  | .index t k => push m (.indexT k env) (.expr t env)
  | .call f args => push m (.callF args env) (.expr f env)
  | .meth o name args => push m (.methO name args env) (.expr o env)
  | .func line lastLine params vararg body =>
    let id := m.closures.size
    let c : Closure := { params, vararg, body, env, fenv := m.fenvId, line, lastLine }
    val1 { m with closures := m.closures.push c } (.fn id)
  | .bin op l r => push m (.binL op r env) (.expr l env)
  | .and l r => push m (.andK r env) (.expr l env)
  | .or l r => push m (.orK r env) (.expr l env)
  | .not e => push m .notK (.expr e env)
  | .neg e => push m .negK (.expr e env)
  | .len e => push m .lenK (.expr e env)
  | .table fields =>
    let (m, tid) := m.newTable
    tblNext m tid 1 fields env
  | .paren e => push m .trunc1 (.expr e env)

/-! ### blocks and statements -/

def stepStmt (m : M) (s : Stmt) (env : Env) : Step :=
  match s with
  | .assign _ targets es => goto_ m (.assignTargets [] targets es env)
  | .callS _ e => push m .discard (.expr e env)
  | .doS _ body => goto_ m (.block body env)
  | .whileS _ c body => push m (.whileK c body env) (.expr c env)
  | .repeatS _ lu c body => push m (.repeatL c body env) (.block (body ++ [.untilS lu c]) env)
  | .untilS _ c => push m (.untilK c [] env) (.expr c env)
  | .ifS _ c thn els => push m (.ifK thn els env) (.expr c env)
  | .forNum _ v e1 e2 e3 body => push m (.forNum1 v e2 e3 body env) (.expr e1 env)
  | .forIn _ names es body => push m (.forInK names body env) (.exprs es env)
  | .ret _ es => push m .retK (.exprs es env)
  | .brk _ => goto_ m .brk
  | .goto _ l => goto_ m (.gotoL l)
  | .localS .. | .localFn .. | .label .. => unspec "internal: handled by stepBlock"

def stepBlock (m : M) (stmts : List Stmt) (env : Env) : Step :=
  match stmts with
  | [] => goto_ m .done
  | s :: rest =>
    let m := { m with line := s.line }
    match s with
    | .localS _ names es => push m (.localK names rest env) (.exprs es env)
    | .localFn _ name f =>
      let (m, c) := m.newCell .nil
      let env' := (name, c) :: env
      (match f with
       | .func line lastLine params vararg body =>
         let id := m.closures.size
         let cl : Closure := { params, vararg, body, env := env', fenv := m.fenvId, line, lastLine }
         let m := { m with closures := m.closures.push cl }
         goto_ (m.setCell c (.fn id)) (.block rest env')
       | _ => unspec "local function without a function body")
    | .label _ name => push m (.labelMark name rest env) (.block rest env)
    | _ => stepStmt { m with kont := .seq rest env :: m.kont } s env

/-! ### indexing with metamethods (§2.8 gettable_event / settable_event) -/

def stepIndex (m : M) (o k : SVal) (depth : Nat) : Step :=
  if depth ≥ 100 then fault m "loop in gettable" else
  match o with
  | .tbl tid =>
    let raw := m.rawget tid k
    if !raw.isNil then val1 m raw
    else
      let h := m.metaField o "__index"
      if h.isNil then val1 m .nil
      else match h with
        | .fn _ | .host _ => push m .ret1 (.call h [o, k])
        | _ => goto_ m (.index h k (depth + 1))
  | _ =>
    let h := m.metaField o "__index"
    if h.isNil then fault m "attempt to index"
    else match h with
      | .fn _ | .host _ => push m .ret1 (.call h [o, k])
      | _ => goto_ m (.index h k (depth + 1))

def stepSetIndex (m : M) (o k v : SVal) (depth : Nat) : Step :=
  if depth ≥ 100 then fault m "loop in settable" else
  let rawStore (tid : Nat) : Step :=
    match k.toKey? with
    | some key => goto_ (m.rawsetK tid key v) .done
    | none => fault m "table index is nil or NaN"
  match o with
  | .tbl tid =>
    let raw := m.rawget tid k
    if !raw.isNil then rawStore tid
    else
      let h := m.metaField o "__newindex"
      if h.isNil then rawStore tid
      else match h with
        | .fn _ | .host _ => push m .discard (.call h [o, k, v])
        | _ => goto_ m (.setIndex h k v (depth + 1))
  | _ =>
    let h := m.metaField o "__newindex"
    if h.isNil then fault m "attempt to index"
    else match h with
      | .fn _ | .host _ => push m .discard (.call h [o, k, v])
      | _ => goto_ m (.setIndex h k v (depth + 1))

def stepCall (m : M) (f : SVal) (args : List SVal) : Step :=
  let via := m.viaHost
  let m := { m with viaHost := false }
  match f with
  | .fn id => callClosure m id args false
  | .host name => hostCall m name args via
  | _ =>
    -- ldo.c tryfuncTM (5.1): the `__call` handler must itself be a function
    let h := m.metaField f "__call"
    match h with
    | .fn _ | .host _ => goto_ m (.call h (f :: args))
    | _ => fault m "attempt to call"

/-! ### assignment -/

def stepAssignTargets (m : M) (done : List LTarget) (rest : List Expr) (es : List Expr) (env : Env) : Step :=
  match rest with
  | [] => push m (.asgV done.reverse env) (.exprs es env)
  | .var n :: r => goto_ m (.assignTargets (.lvar n :: done) r es env)
  | .index t k :: r => push m (.asgT1 done k r es env) (.expr t env)
  | _ => unspec "invalid assignment target"

/-- perform the pending stores, last target first (the order the property leaves open is not observable:
    generated targets are distinct) -/
def stepStores (m : M) (pending : List (LTarget × SVal)) (env : Env) : Step :=
  match pending with
  | [] => goto_ m .done
  | (.lvar n, v) :: r =>
    (match lookup env n with
     | some c => goto_ (m.setCell c v) (.stores r env)
     | none => push m (.asgStores r env) (.setIndex (.tbl m.fenvId) (sv n) v 0))
  | (.lidx t k, v) :: r => push m (.asgStores r env) (.setIndex t k v 0)

/-! ### delivering values to the top frame -/

def forNumTest (cur lim step : Float) : Bool :=
  if step > 0 then cur ≤ lim else cur ≥ lim

def startForNum (m : M) (v : String) (cur lim step : Float) (body : List Stmt) (env : Env) : Step :=
  if forNumTest cur lim step then
    let (m, c) := m.newCell (.num cur)
    push m (.forNumL v cur lim step body env) (.block body ((v, c) :: env))
  else goto_ m .done

def stepVals (m : M) (fr : Frame) (vs : List SVal) : Step :=
  let v := vs.headD .nil
  match fr with
  | .seq .. | .labelMark .. => unspec "internal: value delivered to a block frame"
  | .exprsK acc rest env =>
    (match rest with
     | [] => vals m (acc ++ vs)
     | e :: rest' => push m (.exprsK (acc ++ [v]) rest' env) (.expr e env))
  | .trunc1 => val1 m v
  | .binL op r env => push m (.binR op v) (.expr r env)
  | .binR op l => binop m op l v
  | .andK r env => if v.truthy then push m .trunc1 (.expr r env) else val1 m v
  | .orK r env => if v.truthy then val1 m v else push m .trunc1 (.expr r env)
  | .notK => val1 m (.bool (!v.truthy))
  | .negK =>
    (match toNumber? v with
     | some f => val1 m (.num (-f))
     | none =>
       let h := m.metaField v "__unm"
       if h.isNil then fault m "arith" else push m .ret1 (.call h [v]))   -- manual §2.8 unm_event: h(op)
  | .lenK =>
    (match v with
     | .str h => val1 m (numV (strLen h))
     | .tbl tid =>
       if !(m.metaField v "__len").isNil then unspec "# on a table with __len (5.1 ignores it, 5.2 honours it)" else
       (match (m.tget tid).border? with
       | some n => val1 m (numV n)
       | none => unspec "length of a table with holes")
     | _ =>
       let h := m.metaField v "__len"
       if h.isNil then fault m "attempt to get length" else push m .ret1 (.call h [v]))
  | .indexT k env => push m (.indexK v) (.expr k env)
  | .indexK t => goto_ m (.index t v 0)
  | .callF args env => push m (.callA v) (.exprs args env)
  | .callA f => goto_ m (.call f vs)
  | .methO name args env => push m (.methF v args env) (.index v (sv name) 0)
  | .methF o args env => push m (.methA v o) (.exprs args env)
  | .methA f o => goto_ m (.call f (o :: vs))
  | .tblPos tid idx rest env last =>
    if last then
      -- the last positional field takes every value
      let rec put (m : M) (i : Nat) : List SVal → M
        | [] => m
        | x :: r => put (m.rawsetK tid (.int (i : Nat)) x) (i + 1) r
      tblNext (put m idx vs) tid (idx + vs.length) rest env
    else tblNext (m.rawsetK tid (.int (idx : Nat)) v) tid (idx + 1) rest env
  | .tblKeyK tid idx ve rest env => push m (.tblKeyV tid idx v rest env) (.expr ve env)
  | .tblKeyV tid idx k rest env =>
    (match k.toKey? with
     | some key => tblNext (m.rawsetK tid key v) tid idx rest env
     | none => fault m "table index is nil or NaN")
  | .localK names rest env =>
    let (m, env') := bindNames m env names vs
    goto_ m (.block rest env')
  | .asgT1 done k rest es env => push m (.asgT2 done v rest es env) (.expr k env)
  | .asgT2 done t rest es env => goto_ m (.assignTargets (.lidx t v :: done) rest es env)
  | .asgV targets env =>
    let pairs := (targets.zipIdx.map fun (t, i) => (t, vs.getD i .nil)).reverse
    goto_ m (.stores pairs env)
  | .asgStores .. => unspec "internal: value delivered to a store frame"
  | .ifK thn els env => goto_ m (.block (if v.truthy then thn else els) env)
  | .whileK c body env =>
    if v.truthy then push m (.whileL c body env) (.block body env) else goto_ m .done
  | .whileL .. | .repeatL .. | .forNumL .. | .forInL .. => unspec "internal: value delivered to a loop frame"
  | .untilK _ _ _ =>
    (match popToLoop m.kont with
     | some (.repeatL c body env :: k) =>
       if v.truthy then .inl { m with kont := k, ctrl := .done }
       else .inl { m with kont := .repeatL c body env :: k,
                          ctrl := .block (body ++ [.untilS m.line c]) env }
     | _ => unspec "internal: until outside repeat")
  | .forNum1 x e2 e3 body env => push m (.forNum2 x v e3 body env) (.expr e2 env)
  | .forNum2 x a e3 body env =>
    (match e3 with
     | some e3 => push m (.forNum3 x a v body env) (.expr e3 env)
     | none => (match a, v with
       | .num a, .num b => startForNum m x a b 1.0 body env
       | _, _ => (match toNumber? a, toNumber? v with
         | some _, some _ => unspec "numeric for over numeric strings"
         | _, _ => fault m "'for' limits must be numbers")))
  | .forNum3 x a b body env =>
    (match a, b, v with
     | .num a, .num b, .num c => startForNum m x a b c body env
     | _, _, _ => (match toNumber? a, toNumber? b, toNumber? v with
       | some _, some _, some _ => unspec "numeric for over numeric strings"
       | _, _, _ => fault m "'for' limits must be numbers"))
  | .forInK names body env =>
    let f := listGet vs 0; let s := listGet vs 1; let c := listGet vs 2
    push m (.forInCall names f s body env) (.call f [s, c])
  | .forInCall names f s body env =>
    if v.isNil then goto_ m .done
    else
      let (m, env') := bindNames m env names vs
      push m (.forInL names f s v body env) (.block body env')
  | .callB l fn _ => vals { m with line := l, curFn := fn } vs
  | .retK => goto_ m (.retn vs)
  | .discard => goto_ m .done
  | .pcallB l fn => vals { m with line := l, curFn := fn } (.bool true :: vs)
  | .xpcallB _ l fn => vals { m with line := l, curFn := fn } (.bool true :: vs)
  | .xpcallH .. => vals m [.bool false, v]      -- the message handler is called for ONE result (ldo.c luaD_throw → errfunc)
  | .coB => switchToParent m .dead [] (fun wrap => if wrap then .vals vs else .vals (.bool true :: vs))
  | .resumeB .. => unspec "internal: value delivered to a resume frame"
  | .ret1 => val1 m v
  | .retBool neg => val1 m (.bool (v.truthy != neg))
  | .tostringK => val1 m v
  | .ipairsK => val1 m v

/-! ### a block (or loop body) finished -/

def stepDone (m : M) (fr : Frame) : Step :=
  match fr with
  | .seq rest env => goto_ m (.block rest env)
  | .labelMark .. => goto_ m .done
  | .asgStores pending env => goto_ m (.stores pending env)
  | .whileL c body env => push m (.whileK c body env) (.expr c env)
  | .repeatL .. => unspec "internal: repeat body ended without until"
  | .forNumL x cur lim step body env => startForNum m x (cur + step) lim step body env
  | .forInL names f s ctl body env => push m (.forInCall names f s body env) (.call f [s, ctl])
  | .callB l fn _ => vals { m with line := l, curFn := fn } []
  | .discard => goto_ m .done
  | .coB => switchToParent m .dead [] (fun wrap => if wrap then .vals [] else .vals [.bool true])
  | _ => vals { m with kont := fr :: m.kont } []     -- a `.done` reaching a value frame = no values

/-! ### unwinding -/

def stepBrk (m : M) : Step :=
  match popToLoop m.kont with
  | some (_ :: k) => .inl { m with kont := k, ctrl := .done }
  | _ => unspec "break outside a loop"

def stepRetn (m : M) (vs : List SVal) : Step :=
  match m.kont with
  | [] => .inr (.results vs)
  | .callB l fn _ :: k => .inl { m with kont := k, line := l, curFn := fn, ctrl := .vals vs }
  | .coB :: k => .inl { m with kont := .coB :: k, ctrl := .vals vs }
  | _ :: k => .inl { m with kont := k }

def stepGoto (m : M) (l : String) : Step :=
  match findLabel l m.kont with
  | some (k, stmts, env) => .inl { m with kont := k, ctrl := .block stmts env }
  | none => unspec "goto target not visible"

def stepErr (m : M) (v : SVal) (fl : Bool) : Step :=
  match m.kont with
  | [] =>
    if m.cur = 0 then .inr (.failed v fl m.line)
    else unspec "internal: coroutine continuation without bottom"
  | .pcallB l fn :: k => .inl { m with kont := k, line := l, curFn := fn, ctrl := .vals [.bool false, v] }
  | .xpcallB h l fn :: k =>
    -- the handler runs with the error value; its results become the results of xpcall
    .inl { m with kont := .xpcallH l fn :: k, line := l, curFn := fn, ctrl := .call h [v] }
  | .xpcallH l fn :: k =>
    -- the message handler itself failed: xpcall still returns false (status LUA_ERRERR); WHICH value comes with
    -- it is not fixed by the manual (the reference implementation re-enters the handler until the C stack is
    -- exhausted and delivers "error in error handling"; gopher-lua delivers the handler's own error value):
    -- a string is matched as "some string", anything else leaves the specified fragment
    (match v with
     | .str _ => .inl { m with kont := k, line := l, curFn := fn, ctrl := .vals [.bool false, sv "?"] }
     | _ => unspec "non-string error raised inside an xpcall message handler")
  | .coB :: _ => switchToParent m .dead [] (fun wrap => if wrap then .err v fl else .vals [.bool false, v])
  | _ :: k => .inl { m with kont := k }

/-! ### the transition function -/

/-- one transition, fault injection aside.  Neither `stepCore` nor any helper it calls mentions the
    `faultAt` field (they only copy it along in `{ m with … }` updates); `step` below makes this
    manifest by running `stepCore` on the machine with the field erased and re-attaching it. -/
def stepCore (m : M) : Step :=
  match m.ctrl with
  | .expr e env => stepExpr m e env
  | .exprs es env =>
    (match es with
     | [] => vals m []
     | e :: rest => push m (.exprsK [] rest env) (.expr e env))
  | .block stmts env => stepBlock m stmts env
  | .vals vs =>
    (match m.kont with
     | [] => if m.cur = 0 then .inr (.results vs) else unspec "internal: coroutine fell off its continuation"
     | fr :: k => stepVals { m with kont := k } fr vs)
  | .done =>
    (match m.kont with
     | [] => .inr (.results [])
     | fr :: k => stepDone { m with kont := k } fr)
  | .brk => stepBrk m
  | .retn vs => stepRetn m vs
  | .gotoL l => stepGoto m l
  | .err v fl => stepErr m v fl
  | .index o k d => stepIndex m o k d
  | .setIndex o k v d => stepSetIndex m o k v d
  | .call f args => stepCall m f args
  | .assignTargets done rest es env => stepAssignTargets m done rest es env
  | .stores pending env => stepStores m pending env

/-- put the `faultAt` field back after a `stepCore` on the fault-erased machine -/
def reattachFault (fa : Option Nat) : Step → Step
  | .inl m => .inl { m with faultAt := fa }
  | .inr o => .inr o

def step (m : M) : Step :=
  let m := { m with steps := m.steps + 1 }
  -- fault injection (C05): a single fault at machine step k, positioned at the current line
  if m.faultAt = some m.steps then
    match m.ctrl with
    | .err .. => .inl { m with faultAt := none }
    | _ => .inl { m with faultAt := none, ctrl := .err (sv (posPrefix m.line ++ " ?")) true }
  else
    -- no helper reads or writes `faultAt`, so this is `stepCore m` (the former direct definition);
    -- written this way so that Proofs/Sem.lean `fault_agrees_before` is a short induction
    reattachFault m.faultAt (stepCore { m with faultAt := none })

def run : Nat → M → M × Outcome
  | 0, m => (m, .outOfFuel)
  | fuel + 1, m =>
    match step m with
    | .inl m' => run fuel m'
    | .inr o => (m, o)

/-! ### initial state: global table and libraries -/

def libNames : List (String × List String) :=
  [("", ["emit", "hostid", "type", "tostring", "tonumber", "select", "unpack", "rawget", "rawset", "rawequal", "next",
         "pairs", "ipairs", "setmetatable", "getmetatable", "getfenv", "setfenv", "pcall", "xpcall", "error", "assert"]),
   ("coroutine", ["create", "wrap", "resume", "yield", "status", "running"]),
   ("table", ["insert", "remove", "concat"]),
   ("string", ["len", "sub", "rep", "byte", "char", "upper", "lower"]),
   ("math", ["floor", "abs", "max", "min", "fmod"])]

def initM (body : List Stmt) (faultAt : Option Nat := none) : M :=
  let m : M := { ctrl := .done }
  let (m, g) := m.newTable            -- 0: globals
  let (m, sm) := m.newTable           -- 1: string metatable
  let m := { m with globals := g, strMeta := sm }
  let m := libNames.foldl (fun m (lib, fns) =>
    if lib = "" then fns.foldl (fun m f => m.rawsetK g (.str (hx f)) (.host f)) m
    else
      let (m, t) := m.newTable
      let m := fns.foldl (fun m f => m.rawsetK t (.str (hx f)) (.host (lib ++ "." ++ f))) m
      let m := m.rawsetK g (.str (hx lib)) (.tbl t)
      if lib = "string" then m.rawsetK sm (.str (hx "__index")) (.tbl t)
      else if lib = "math" then m.rawsetK t (.str (hx "huge")) (.num (1.0 / 0.0))
      else m) m
  let m := m.rawsetK g (.str (hx "_G")) (.tbl g)
  -- the main chunk is a vararg function called with no arguments
  let (m, pk) := m.pack []
  let (m, c) := m.newCell (.tbl pk)
  { m with threads := #[{ status := .running, started := true }], ctrl := .block body [("...", c)],
           line := 1, faultAt := faultAt }

end GLua.Sem
