/-
  Reference semantics of core Lua 5.1 (+ goto): values, heap, continuation frames, machine state.
  Written from the Lua 5.1 manual (§2.2–2.11, §5.1–5.6); independent of gopher-lua's code.
  Small-step abstract machine (control + explicit continuation stack) so that protected calls,
  coroutine suspension and "fault at step k" are ordinary transitions.
-/
import GLua.Spec.Ast
import GLua.Spec.Num

namespace GLua.Sem

inductive SVal where
  | nil
  | bool (b : Bool)
  | num (f : Float)
  | str (hex : String)
  | tbl (id : Nat)
  | fn (id : Nat)
  | host (name : String)
  | thread (id : Nat)
deriving Inhabited

/-- table keys: normalised so that equality is decidable and lawful
    (a float key with an integer value is the integer; NaN/nil are not keys). -/
inductive Key where
  | int (i : Int) | flt (bits : Nat) | str (hex : String) | bool (b : Bool)
  | tbl (id : Nat) | fn (id : Nat) | host (name : String) | thread (id : Nat)
deriving DecidableEq, Inhabited

def SVal.toKey? : SVal → Option Key
  | .nil => none
  | .bool b => some (.bool b)
  | .num f =>
    if f.isNaN then none
    else match floatExactInt? f with
      | some i => some (.int i)
      | none => some (.flt f.toBits.toNat)
  | .str h => some (.str h)
  | .tbl i => some (.tbl i)
  | .fn i => some (.fn i)
  | .host n => some (.host n)
  | .thread i => some (.thread i)

def Key.toVal : Key → SVal
  | .int i => .num (Float.ofInt i)
  | .flt b => .num (Float.ofBits b.toUInt64)
  | .str h => .str h
  | .bool b => .bool b
  | .tbl i => .tbl i
  | .fn i => .fn i
  | .host n => .host n
  | .thread i => .thread i

def SVal.isNil : SVal → Bool
  | .nil => true
  | _ => false

def SVal.truthy : SVal → Bool
  | .nil => false
  | .bool false => false
  | _ => true

def SVal.typeName : SVal → String
  | .nil => "nil" | .bool _ => "boolean" | .num _ => "number" | .str _ => "string"
  | .tbl _ => "table" | .fn _ => "function" | .host _ => "function" | .thread _ => "thread"

/-- primitive (raw) equality, manual §2.5.2 -/
def SVal.rawEq : SVal → SVal → Bool
  | .nil, .nil => true
  | .bool a, .bool b => a == b
  | .num a, .num b => a == b
  | .str a, .str b => a == b
  | .tbl a, .tbl b => a == b
  | .fn a, .fn b => a == b
  | .host a, .host b => a == b
  | .thread a, .thread b => a == b
  | _, _ => false

structure STable where
  map : List (Key × SVal) := []
  mt : Option Nat := none
deriving Inhabited

def STable.get (t : STable) (k : Key) : SVal :=
  match t.map.find? (fun p => p.1 = k) with
  | some p => p.2
  | none => .nil

def STable.set (t : STable) (k : Key) (v : SVal) : STable :=
  if v.isNil then { t with map := t.map.filter (fun p => p.1 ≠ k) }
  else if t.map.any (fun p => p.1 = k) then { t with map := t.map.map (fun p => if p.1 = k then (k, v) else p) }
  else { t with map := t.map ++ [(k, v)] }

/-- the smallest border; `none` when the table has more than one border (then `#t` is unspecified). -/
def STable.border? (t : STable) : Option Nat :=
  let rec first (n fuel : Nat) : Nat :=
    match fuel with
    | 0 => n
    | f + 1 => if (t.get (.int (n + 1))).isNil then n else first (n + 1) f
  let n := first 0 (t.map.length + 1)
  if t.map.any (fun p => match p.1 with | .int i => i > (n : Int) + 1 | _ => false) then none else some n

abbrev Env := List (String × Nat)     -- lexical environment: name ↦ cell id (innermost first)

structure Closure where
  params : List String
  vararg : Bool
  body : List Stmt
  env : Env
  fenv : Nat          -- id of the environment table (globals of this function)
  line : Nat
  lastLine : Nat
deriving Inhabited

inductive LTarget where
  | lvar (name : String)
  | lidx (t k : SVal)
deriving Inhabited

inductive Frame where
  | seq (rest : List Stmt) (env : Env)                          -- rest of a block
  | labelMark (name : String) (rest : List Stmt) (env : Env)    -- a label that was passed (backward goto target)
  | exprsK (acc : List SVal) (rest : List Expr) (env : Env)
  | trunc1
  | binL (op : BinOp) (r : Expr) (env : Env)
  | binR (op : BinOp) (l : SVal)
  | andK (r : Expr) (env : Env) | orK (r : Expr) (env : Env) | notK | negK | lenK
  | indexT (k : Expr) (env : Env) | indexK (t : SVal)
  | callF (args : List Expr) (env : Env) | callA (f : SVal)
  | methO (name : String) (args : List Expr) (env : Env) | methF (o : SVal) (args : List Expr) (env : Env)
  | methA (f o : SVal)
  | tblPos (tid idx : Nat) (rest : List Field) (env : Env) (last : Bool)
  | tblKeyK (tid idx : Nat) (v : Expr) (rest : List Field) (env : Env)
  | tblKeyV (tid idx : Nat) (k : SVal) (rest : List Field) (env : Env)
  | localK (names : List String) (rest : List Stmt) (env : Env)
  | asgT1 (done : List LTarget) (k : Expr) (rest : List Expr) (es : List Expr) (env : Env)
  | asgT2 (done : List LTarget) (t : SVal) (rest : List Expr) (es : List Expr) (env : Env)
  | asgV (targets : List LTarget) (env : Env)
  | asgStores (pending : List (LTarget × SVal)) (env : Env)
  | ifK (thn els : List Stmt) (env : Env)
  | whileK (c : Expr) (body : List Stmt) (env : Env)            -- awaiting the condition value
  | whileL (c : Expr) (body : List Stmt) (env : Env)            -- loop frame: body running
  | repeatL (c : Expr) (body : List Stmt) (env : Env)           -- loop frame: body (ending in `until`) running
  | untilK (c : Expr) (body : List Stmt) (env : Env)            -- awaiting the until-condition
  | forNum1 (v : String) (e2 : Expr) (e3 : Option Expr) (body : List Stmt) (env : Env)
  | forNum2 (v : String) (a : SVal) (e3 : Option Expr) (body : List Stmt) (env : Env)
  | forNum3 (v : String) (a b : SVal) (body : List Stmt) (env : Env)
  | forNumL (v : String) (cur lim step : Float) (body : List Stmt) (env : Env)   -- loop frame
  | forInK (names : List String) (body : List Stmt) (env : Env)
  | forInCall (names : List String) (f s : SVal) (body : List Stmt) (env : Env)
  | forInL (names : List String) (f s ctl : SVal) (body : List Stmt) (env : Env) -- loop frame
  | callB (savedLine : Nat) (callerFn : Option Nat) (fromHost : Bool)            -- call boundary
  | retK
  | discard                                                      -- call statement: drop results, continue
  | pcallB (savedLine : Nat) (savedFn : Option Nat)
  | xpcallB (h : SVal) (savedLine : Nat) (savedFn : Option Nat)
  | xpcallH (savedLine : Nat) (savedFn : Option Nat)
  | coB                                                          -- bottom of a coroutine
  | resumeB (co : Nat) (wrap : Bool)
  | ret1 | retBool (neg : Bool)
  | tostringK
  | ipairsK
deriving Inhabited

inductive Ctrl where
  | expr (e : Expr) (env : Env)
  | exprs (es : List Expr) (env : Env)
  | block (stmts : List Stmt) (env : Env)
  | vals (vs : List SVal)
  | done
  | brk
  | retn (vs : List SVal)
  | gotoL (label : String)
  | err (v : SVal) (fault : Bool)       -- fault = raised by the machine (message wording unspecified)
  | index (o k : SVal) (depth : Nat)
  | setIndex (o k v : SVal) (depth : Nat)
  | call (f : SVal) (args : List SVal)
  | assignTargets (done : List LTarget) (rest : List Expr) (es : List Expr) (env : Env)
  | stores (pending : List (LTarget × SVal)) (env : Env)
deriving Inhabited

inductive CoStatus where
  | suspended | running | normal | dead
deriving DecidableEq, Inhabited

structure Thread where
  kont : List Frame := []
  status : CoStatus := .suspended
  parent : Option Nat := none
  body : SVal := .nil
  started : Bool := false
  savedLine : Nat := 0
  savedFn : Option Nat := none
deriving Inhabited

/-- how a run ended -/
inductive Outcome where
  | results (vs : List SVal)
  | failed (v : SVal) (fault : Bool) (line : Nat)
  | unspecified (why : String)        -- the program left the fragment whose meaning the Spec fixes
  | outOfFuel
deriving Inhabited

structure M where
  ctrl : Ctrl
  kont : List Frame := []
  tables : Array STable := #[]
  closures : Array Closure := #[]
  cells : Array SVal := #[]
  threads : Array Thread := #[]
  cur : Nat := 0                      -- running thread (0 = main)
  line : Nat := 0                     -- line of the innermost executing statement of the running function
  curFn : Option Nat := none          -- closure id of the running Lua function
  trace : Array (List SVal) := #[]    -- emit(...) calls, in order
  globals : Nat := 0                  -- id of the global table
  strMeta : Nat := 0                  -- id of the metatable shared by all strings
  faultAt : Option Nat := none        -- inject a fault when `steps` reaches this value
  viaHost : Bool := false            -- the pending call was issued by a host function (pcall, xpcall), not by Lua code
  steps : Nat := 0
deriving Inhabited

end GLua.Sem
