/-
  Spec for C10 (written from the property text and the Lua 5.1 manual §3.1–§3.2, §2.5 "adjust";
  not from the Go code): the value stack of one activation is a `List` indexed 1..top from the
  bottom or -1..-top from the end; everything outside is "not in the list".
-/
import GLua.Basic

namespace GLua.StackSpec
open GLua

abbrev Stk := List OVal

/-- position (0-based) denoted by an API index, `none` when the index is outside the list. -/
def resolve (l : Stk) (idx : Int) : Option Nat :=
  if 1 ≤ idx ∧ idx ≤ l.length then some (idx - 1).toNat
  else if idx ≤ -1 ∧ -(l.length : Int) ≤ idx then some (l.length + idx).toNat
  else none

def getTop (l : Stk) : Nat := l.length

/-- reads outside the list give nil. -/
def get (l : Stk) (idx : Int) : OVal :=
  match resolve l idx with
  | some p => l.getD p none
  | none => none

def push (l : Stk) (v : OVal) : Stk := l ++ [v]

/-- `Pop(n)`: the n top-most values go away; popping more than there is is an error. -/
def pop (l : Stk) (n : Nat) : Option Stk :=
  if n ≤ l.length then some (l.take (l.length - n)) else none

/-- truncate or pad with nil to exactly `n` elements. -/
def resize (l : Stk) (n : Nat) : Stk := l.take n ++ List.replicate (n - l.length) none

/-- `SetTop(i)`: i ≥ 0 is the new size; a negative i names the element that becomes the top
    (-1 keeps everything); anything below the list empties it. -/
def setTop (l : Stk) (idx : Int) : Stk :=
  if 0 ≤ idx then resize l idx.toNat else resize l (l.length + idx + 1).toNat

/-- `Replace(i, v)`: overwrite the element at i; an index outside the list names nothing. -/
def replace (l : Stk) (idx : Int) (v : OVal) : Stk :=
  match resolve l idx with
  | some p => l.set p v
  | none => l

/-- `Remove(i)`: delete the element at i, shifting the ones above it down. -/
def remove (l : Stk) (idx : Int) : Stk :=
  match resolve l idx with
  | some p => l.eraseIdx p
  | none => l

def insertAt (l : Stk) (p : Nat) (v : OVal) : Stk := l.insertIdx p v

/-- `Insert(v, i)`: v goes in front of the element currently at i (which, with everything above it,
    shifts up); i = top+1 appends.  Other indices name no position: `none` = the list effect is not
    specified (only the frame condition and list-shapedness are required there). -/
def insert (l : Stk) (v : OVal) (idx : Int) : Option Stk :=
  match resolve l idx with
  | some p => some (insertAt l p v)
  | none => if idx = l.length + 1 then some (l ++ [v]) else none

/-- manual §2.5 "adjust": exactly `want` values (nil-padded or truncated); all of them for MultRet (-1). -/
def adjust (vs : List OVal) (want : Int) : List OVal :=
  if want < 0 then vs else vs.take want.toNat ++ List.replicate (want.toNat - vs.length) none

/-- the results a host function selects by returning `n`: its n top-most values. -/
def topMost (l : Stk) (n : Nat) : List OVal := l.drop (l.length - n)

/-- a call with `nargs` arguments on a stack `pre ++ [fn] ++ args`: function and arguments are removed,
    the adjusted results are left. -/
def call (l : Stk) (nargs : Nat) (nret : Int) (results : List OVal) : Stk :=
  l.take (l.length - nargs - 1) ++ adjust results nret

/-- the value in the function slot of a call with `nargs` arguments on a stack `pre ++ [fn] ++ args`. -/
def fnSlot (l : Stk) (nargs : Nat) : OVal := l.getD (l.length - nargs - 1) none

/-- the arguments of such a call. -/
def argsOf (l : Stk) (nargs : Nat) : List OVal := l.drop (l.length - nargs)

/-- what the callee receives (manual §2.8, "call" event): the arguments — preceded by the called object itself when
    it is not a function and the call goes through its `__call` handler: `h(func, ...)`. -/
def calleeArgs (l : Stk) (nargs : Nat) (viaCall : Bool) : List OVal :=
  (if viaCall then [fnSlot l nargs] else []) ++ argsOf l nargs

/-- a failed protected call leaves neither function, arguments nor partial results. -/
def callFailed (l : Stk) (nargs : Nat) : Stk := l.take (l.length - nargs - 1)

/-! histories: one stack operation of the public API (syntax), the list operation the Spec prescribes for it, and
  the list after a history of them. -/

inductive StackOp where
  | push (v : OVal)
  | pop (n : Nat)
  | setTop (idx : Int)
  | insert (v : OVal) (idx : Int)
  | remove (idx : Int)
  | replace (idx : Int) (v : OVal)
deriving DecidableEq, Repr

/-- the list operation the Spec prescribes; `none` where the Spec prescribes no list (Pop of more than
    there is = error; Insert at an index that names no position; Replace through a pseudo-index, i.e. at or
    below `LUA_REGISTRYINDEX` = -10000, which is no stack operation). -/
def specOp (l : Stk) : StackOp → Option Stk
  | .push v => some (push l v)
  | .pop n => pop l n
  | .setTop i => some (setTop l i)
  | .insert v i => insert l v i
  | .remove i => some (remove l i)
  | .replace i v => if -10000 < i then some (replace l i v) else none

def specRun (l : Stk) : List StackOp → Option Stk
  | [] => some l
  | o :: r => specOp l o >>= fun l' => specRun l' r

/-! pseudo-indices (manual §3.3 "Pseudo-Indices", §3.4 "C Closures"): indices that are not stack positions.
  `LUA_REGISTRYINDEX` (-10000), `LUA_ENVIRONINDEX` (-10001: the environment of the running C function),
  `LUA_GLOBALSINDEX` (-10002), `lua_upvalueindex(n) = LUA_GLOBALSINDEX - n` for the n-th upvalue of the running
  C function; for n greater than the number of upvalues the index is "acceptable but invalid": it reads as nil and a
  store through it has no effect.  Registry, environment and globals are tables: storing anything else is an error.
  None of them reads or changes the stack. -/

inductive Pseudo where
  | registry | environ | globals
  | upvalue (n : Nat)
deriving DecidableEq, Repr

def pseudoOf (idx : Int) : Option Pseudo :=
  if idx = -10000 then some .registry
  else if idx = -10001 then some .environ
  else if idx = -10002 then some .globals
  else if idx < -10002 then some (.upvalue (-10002 - idx).toNat)
  else none

structure Cells where
  registry : OVal
  environ  : OVal
  globals  : OVal
  upvalues : List OVal
deriving DecidableEq, Repr

def pseudoGet (c : Cells) : Pseudo → OVal
  | .registry => c.registry
  | .environ => c.environ
  | .globals => c.globals
  | .upvalue n => if 1 ≤ n ∧ n ≤ c.upvalues.length then c.upvalues.getD (n - 1) none else none

/-- `none` = error. -/
def pseudoSet (c : Cells) (which : Pseudo) (v : OVal) (isTable : Bool) : Option Cells :=
  match which with
  | .registry => if isTable then some { c with registry := v } else none
  | .environ => if isTable then some { c with environ := v } else none
  | .globals => if isTable then some { c with globals := v } else none
  | .upvalue n => if 1 ≤ n ∧ n ≤ c.upvalues.length then some { c with upvalues := c.upvalues.set (n - 1) v } else some c

/-- what a read through ANY index gives (manual §3.2–§3.4): the cell for a pseudo-index, the list element for an index
    inside the list, nil for every other index ("acceptable but invalid": 0, beyond the top, below the bottom, an
    upvalue index beyond the function's upvalues). -/
def getAny (l : Stk) (c : Cells) (idx : Int) : OVal :=
  match pseudoOf idx with
  | some which => pseudoGet c which
  | none => get l idx

end GLua.StackSpec
