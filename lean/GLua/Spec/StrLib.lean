/-
  Spec for C15 — string library functions as the Lua 5.1 reference manual (§5.4) defines them, over byte
  lists, written from the manual and the reference `lstrlib.c` (for what the manual leaves implicit: the
  clamping of positions), NEVER from gopher-lua.  Core Lean only, executable.

  A Lua string is a `List Nat` of bytes (each `< 256`); positions are `Int` (1-based, negative = from the end).
  Also: the format-directive grammar of `string.format` and the ISO C rendering of one conversion for the
  integer / character / string conversions (`d i x X o c s`), exact over `Int`.
-/
namespace GLua.StrSpec

abbrev Bytes := List Nat

/-- manual: "indices are allowed to be negative and are interpreted as indexing backwards, from the end of
    the string" — `lstrlib.c:posrelat` (5.1): a negative position is `len + pos + 1`, never below 0. -/
def posrelat (pos : Int) (len : Nat) : Int :=
  let p := if pos < 0 then pos + (len : Int) + 1 else pos
  if p < 0 then 0 else p

/-- the bytes at the 1-based inclusive positions `a .. b` (empty when `a > b`); `1 ≤ a`, `b ≤ len` expected. -/
def slice {α} (s : List α) (a b : Int) : List α :=
  if a ≤ b then (s.drop (a - 1).toNat).take (b - a + 1).toNat else []

/-- `string.sub (s, i [, j])`: start clamped to ≥ 1, end clamped to ≤ len. -/
def sub {α} (s : List α) (i j : Int) : List α :=
  let l := s.length
  slice s (max (posrelat i l) 1) (min (posrelat j l) l)

/-- `string.byte (s [, i [, j]])`: default `i = 1`, default `j = i`; the codes of `s[i..j]`. -/
def byte {α} (s : List α) (i j : Option Int) : List α :=
  let l := s.length
  let pi := posrelat (i.getD 1) l
  let pe := posrelat (j.getD pi) l
  slice s (max pi 1) (min pe l)

/-- `string.char (···)`: every argument must be a byte value (lstrlib: "invalid value" otherwise). -/
def char (cs : List Int) : Option Bytes :=
  if cs.all (fun c => 0 ≤ c ∧ c ≤ 255) then some (cs.map Int.toNat) else none

def len {α} (s : List α) : Nat := s.length

/-- `string.rep (s, n)`: n copies of s, the empty string for n ≤ 0. -/
def rep {α} (s : List α) (n : Int) : List α := (List.replicate n.toNat s).flatten

def reverse {α} (s : List α) : List α := s.reverse

/-- C locale `toupper` / `tolower`: only the 26 ASCII letters change. -/
def toUpper (b : Nat) : Nat := if 97 ≤ b ∧ b ≤ 122 then b - 32 else b
def toLower (b : Nat) : Nat := if 65 ≤ b ∧ b ≤ 90 then b + 32 else b
def upper (s : Bytes) : Bytes := s.map toUpper
def lower (s : Bytes) : Bytes := s.map toLower

/-- offset of the first occurrence of `pat` in `s` (0 for the empty pattern). -/
def firstOcc {α} [BEq α] (pat : List α) : List α → Option Nat
  | [] => if pat.isEmpty then some 0 else none
  | c :: r => if pat.isPrefixOf (c :: r) then some 0 else (firstOcc pat r).map (· + 1)

/-- `string.find (s, pattern, init, true)` (plain): search from `init` (default 1, may be negative; clamped into
    `1 .. len+1` as lstrlib 5.1 does); the 1-based inclusive extent of the first occurrence, or nil. -/
def findPlain {α} [BEq α] (s pat : List α) (init : Int) : Option (Int × Int) :=
  let l : Int := s.length
  let i0 := posrelat init s.length - 1
  let i0 := if i0 < 0 then 0 else if i0 > l then l else i0
  (firstOcc pat (s.drop i0.toNat)).map fun (k : Nat) => (i0 + (k : Int) + 1, i0 + (k : Int) + (pat.length : Int))

/-! ### math wrappers over a NaN-free linear order (Int) -/

/-- `math.max (x, ···)` / `math.min`: at least one argument. -/
def maxL : List Int → Option Int
  | [] => none
  | x :: r => some (r.foldl max x)
def minL : List Int → Option Int
  | [] => none
  | x :: r => some (r.foldl min x)

/-! ### string.format: directive grammar (manual: "same rules as the printf family of standard C functions";
    lstrlib: flags from "-+ #0", at most two digits of width, optional '.' and at most two digits of precision) -/

structure Directive where
  minus : Bool := false
  plus  : Bool := false
  space : Bool := false
  sharp : Bool := false
  zero  : Bool := false
  width : Option Nat := none
  prec  : Option Nat := none
  verb  : Nat := 0
deriving DecidableEq, Repr, Inhabited

def isDigit (b : Nat) : Bool := 48 ≤ b ∧ b ≤ 57

def takeFlags (d : Directive) : Bytes → Directive × Bytes
  | 45 :: r => takeFlags { d with minus := true } r
  | 43 :: r => takeFlags { d with plus := true } r
  | 32 :: r => takeFlags { d with space := true } r
  | 35 :: r => takeFlags { d with sharp := true } r
  | 48 :: r => takeFlags { d with zero := true } r
  | r => (d, r)

/-- at most two decimal digits -/
def takeNum2 : Bytes → Option Nat × Bytes
  | a :: b :: r =>
    if isDigit a ∧ isDigit b then (some ((a - 48) * 10 + (b - 48)), r)
    else if isDigit a then (some (a - 48), b :: r) else (none, a :: b :: r)
  | [a] => if isDigit a then (some (a - 48), []) else (none, [a])
  | [] => (none, [])

/-- parse what follows a '%' : flags, width, precision, conversion character. -/
def parseDirective (s : Bytes) : Option (Directive × Bytes) :=
  let (d, r) := takeFlags {} s
  let (w, r) := takeNum2 r
  let (p, r) : Option Nat × Bytes := match r with
    | 46 :: r' => let (p, r'') := takeNum2 r'; (some (p.getD 0), r'')
    | _ => (none, r)
  match r with
  | v :: r' => some ({ d with width := w, prec := p, verb := v }, r')
  | [] => none

inductive Seg where
  | lit (b : Bytes)
  | dir (d : Directive)
deriving Repr

/-- split a format string into literal runs and directives (`%%` is the literal '%'). -/
def parseFormat (fuel : Nat) (s : Bytes) (acc : Bytes) : Option (List Seg) :=
  match fuel with
  | 0 => none
  | fuel + 1 =>
    match s with
    | [] => some (if acc.isEmpty then [] else [.lit acc])
    | 37 :: 37 :: r => parseFormat fuel r (acc ++ [37])
    | 37 :: r =>
      match parseDirective r with
      | none => none
      | some (d, r') =>
        (parseFormat fuel r' []).map fun segs => (if acc.isEmpty then [] else [Seg.lit acc]) ++ Seg.dir d :: segs
    | c :: r => parseFormat fuel r (acc ++ [c])

/-- number of arguments a format string consumes -/
def argCount (segs : List Seg) : Nat := (segs.filter (fun | .dir _ => true | _ => false)).length

/-! ### ISO C rendering of one conversion (C99 7.19.6.1), exact over Int -/

def digitChar (upper : Bool) (d : Nat) : Nat :=
  if d < 10 then 48 + d else (if upper then 55 else 87) + d

def toDigitsAux (base : Nat) (upper : Bool) : Nat → Nat → Bytes → Bytes
  | 0, _, acc => acc
  | fuel + 1, n, acc =>
    if n < base then digitChar upper n :: acc
    else toDigitsAux base upper fuel (n / base) (digitChar upper (n % base) :: acc)

/-- digits of `n` in `base` (2 ≤ base ≤ 16), most significant first; "0" for 0. -/
def toDigits (base : Nat) (upper : Bool) (n : Nat) : Bytes := toDigitsAux base upper (n + 1) n []

def spaces (n : Nat) : Bytes := List.replicate n 32
def zeros (n : Nat) : Bytes := List.replicate n 48

/-- width handling: left-justify with blanks; else zero-fill between head (sign, prefix) and body; else blanks left. -/
def cPad (d : Directive) (head body : Bytes) (zeroOK : Bool) : Bytes :=
  let n := head.length + body.length
  match d.width with
  | none => head ++ body
  | some w =>
    if n ≥ w then head ++ body
    else if d.minus then head ++ body ++ spaces (w - n)
    else if d.zero ∧ zeroOK then head ++ zeros (w - n) ++ body
    else spaces (w - n) ++ head ++ body

/-- the argument of `o x X` is converted to unsigned (64-bit two's complement, as LUA_INTFRM_T = long gives). -/
def toUnsigned64 (v : Int) : Nat := (v % 18446744073709551616).toNat

def isSignedVerb (v : Nat) : Bool := v = 100 ∨ v = 105              -- d i
def isUnsignedVerb (v : Nat) : Bool := v = 120 ∨ v = 88 ∨ v = 111   -- x X o

/-- `d i` (signed) and `x X o` (unsigned) conversions of an integer. -/
def cFormatInt (d : Directive) (v : Int) : Bytes :=
  let signed := isSignedVerb d.verb
  let sign : Bytes := if signed then (if v < 0 then [45] else if d.plus then [43] else if d.space then [32] else []) else []
  let mag : Nat := if signed then v.natAbs else toUnsigned64 v
  let base := if d.verb = 111 then 8 else if signed then 10 else 16
  let digits := if d.prec = some 0 ∧ mag = 0 then [] else toDigits base (d.verb = 88) mag
  let digits := match d.prec with
    | some p => zeros (p - digits.length) ++ digits
    | none => digits
  let pre : Bytes := if d.sharp ∧ mag ≠ 0 ∧ d.verb = 120 then [48, 120]
                     else if d.sharp ∧ mag ≠ 0 ∧ d.verb = 88 then [48, 88] else []
  let digits := if d.sharp ∧ d.verb = 111 ∧ digits.head? ≠ some 48 then 48 :: digits else digits
  cPad d (sign ++ pre) digits d.prec.isNone

/-- `s` (precision truncates, in bytes) and `c` (one byte); blanks only. -/
def cFormatStr (d : Directive) (s : Bytes) : Bytes :=
  let s := match d.prec with
    | some p => if d.verb = 115 then s.take p else s
    | none => s
  cPad d [] s false

/-- `e E f` of an infinity or NaN: `[-]inf` / `nan` (upper case for `E`), sign flags apply, never zero-filled. -/
def cFormatInfNan (d : Directive) (neg nan : Bool) : Bytes :=
  let sign : Bytes := if neg ∧ !nan then [45] else if d.plus then [43] else if d.space then [32] else []
  let body : Bytes := if nan then (if d.verb = 69 then [78, 65, 78] else [110, 97, 110])
                      else (if d.verb = 69 then [73, 78, 70] else [105, 110, 102])
  cPad d sign body false

/-- combinations whose behaviour ISO C defines (`#`/`0` with `c s`, `#` with `d i`, precision with `c` are not). -/
def cDefined (d : Directive) : Bool :=
  if isSignedVerb d.verb then !d.sharp
  else if isUnsignedVerb d.verb ∨ d.verb = 101 ∨ d.verb = 69 ∨ d.verb = 102 then true
  else if d.verb = 99 then !d.sharp ∧ !d.zero ∧ d.prec.isNone
  else if d.verb = 115 then !d.sharp ∧ !d.zero
  else false

end GLua.StrSpec
