/-
  Spec for C18 — the list functions of the Lua 5.1 manual (§5.5 `table.*`, §5.1 `unpack`), written
  from the manual on a plain `List` of non-nil values (`t[1] … t[n]`, `n = #t`).  Nothing here looks at
  gopher-lua.

    table.insert (table, [pos,] value)  "Inserts element value at position pos in table, shifting up other
                                         elements to open space, if necessary.  The default value for pos
                                         is n+1, where n is the length of the table"
    table.remove (table [, pos])        "Removes from table the element at position pos, shifting down other
                                         elements to close the space, if necessary.  Returns the value of the
                                         removed element.  The default value for pos is n"
    table.concat (table [, sep [, i [, j]]])
                                        "Given an array where all elements are strings or numbers, returns
                                         table[i]..sep..table[i+1] ··· sep..table[j].  The default value for
                                         sep is the empty string, the default for i is 1, and the default for
                                         j is the length of the table.  If i is greater than j, returns the
                                         empty string."
    table.maxn (table)                  "Returns the largest positive numerical index of the given table,
                                         or zero if the table has no positive numerical indices."
    table.getn (table)                  (5.0 compatibility) the length `#table`
    unpack (list [, i [, j]])           "Returns the elements from the given table.  This function is
                                         equivalent to  return list[i], list[i+1], ···, list[j] …  By default,
                                         i is 1 and j is the length of the list"
    table.sort (table [, comp])         "Sorts table elements in a given order, in-place, from table[1] to
                                         table[n] … comp … returns true when the first is less than the second
                                         (so that not comp(a[i+1],a[i]) will be true after the sort)."
-/
import GLua.Basic

namespace GLua.TableLibSpec
open GLua

/-- a Lua list: `t[1..n]`, every element non-nil, `n = #t`; no other positive integer key. -/
abbrev LList := List Val

/-- `t[i]` of a list: the i-th element for `1 ≤ i ≤ n`, nil for every other integer. -/
def index (l : LList) (i : Int) : OVal := if 1 ≤ i then l[(i - 1).toNat]? else none

/-- `n` consecutive integers starting at `i`. -/
def upFrom (i : Int) : Nat → List Int
  | 0 => []
  | n + 1 => i :: upFrom (i + 1) n

/-- the integers `i, i+1, …, j` (empty if `i > j`). -/
def intRange (i j : Int) : List Int := upFrom i (j - i + 1).toNat

/-- `table.insert(t, pos, v)` for `1 ≤ pos ≤ n+1`: elements `pos..n` move up by one, then `t[pos] = v`. -/
def insertAt (l : LList) (pos : Nat) (v : Val) : LList := l.take (pos - 1) ++ v :: l.drop (pos - 1)

/-- `table.insert(t, v)`: default `pos = n+1`. -/
def insertEnd (l : LList) (v : Val) : LList := insertAt l (l.length + 1) v

/-- `table.remove(t, pos)` for `1 ≤ pos ≤ n`: new list and the removed element. -/
def removeAt (l : LList) (pos : Nat) : LList × OVal := (l.take (pos - 1) ++ l.drop pos, l[pos - 1]?)

/-- `table.remove(t)`: default `pos = n`. -/
def removeLast (l : LList) : LList × OVal := removeAt l l.length

def maxn (l : LList) : Nat := l.length
def getn (l : LList) : Nat := l.length

/-- `unpack(t, i, j)` = `t[i], t[i+1], …, t[j]`. -/
def unpack (l : LList) (i j : Int) : List OVal := (intRange i j).map (index l)
def unpackDefault (l : LList) : List OVal := unpack l 1 l.length

/-- hex spelling (two lower-case digits per byte, as on the wire) of an ASCII string. -/
def hexDigit (n : Nat) : Char := if n < 10 then Char.ofNat (48 + n) else Char.ofNat (87 + n)
def hexOfAscii (s : String) : String :=
  String.ofList (s.toList.flatMap (fun c => [hexDigit (c.toNat / 16 % 16), hexDigit (c.toNat % 16)]))

/-- the text a string or an (exact integer) number contributes to a concatenation; `none` for any other
    value.  (How non-integral numbers print is C16's subject; they are outside this spec.) -/
def strOf : OVal → Option String
  | some (.str h) => some h
  | some (.int i) => some (hexOfAscii (toString i))
  | _ => none

def allSome {α} : List (Option α) → Option (List α)
  | [] => some []
  | none :: _ => none
  | some x :: r => (allSome r).map (x :: ·)

/-- `table.concat(t, sep, i, j)`: the (hex) string `t[i]..sep..t[i+1] ··· sep..t[j]`, the empty string when
    `i > j`; `none` when some `t[k]`, `i ≤ k ≤ j`, is neither a string nor a number (the manual's
    precondition fails; the reference implementation raises "invalid value"). -/
def concat (l : LList) (sep : String) (i j : Int) : Option String :=
  if i > j then some ""
  else (allSome ((intRange i j).map (fun k => strOf (index l k)))).map (fun ss => sep.intercalate ss)

def concatDefault (l : LList) (sep : String) : Option String := concat l sep 1 l.length

/-! ### sort -/

/-- the manual's post-condition: `not comp(a[i+1], a[i])` for every adjacent pair. -/
def Sorted (lt : Val → Val → Bool) : LList → Prop
  | [] => True
  | [_] => True
  | a :: b :: r => lt b a = false ∧ Sorted lt (b :: r)

def sortedB (lt : Val → Val → Bool) : LList → Bool
  | [] => true
  | [_] => true
  | a :: b :: r => !lt b a && sortedB lt (b :: r)

theorem sortedB_iff (lt : Val → Val → Bool) (l : LList) : sortedB lt l = true ↔ Sorted lt l := by
  induction l with
  | nil => simp [sortedB, Sorted]
  | cons a r ih =>
    cases r with
    | nil => simp [sortedB, Sorted]
    | cons b r => simp [sortedB, Sorted, ih]

/-- a strict weak order (what the manual calls a valid order function). -/
structure StrictWeakOrder (lt : Val → Val → Bool) : Prop where
  irrefl : ∀ a, lt a a = false
  trans : ∀ a b c, lt a b = true → lt b c = true → lt a c = true
  negTrans : ∀ a b c, lt a b = false → lt b c = false → lt a c = false

/-- what `table.sort(t, lt)` must leave behind: a permutation of the original elements which is ordered by
    `lt` whenever `lt` is a strict weak order. -/
def SortPost (lt : Val → Val → Bool) (orig result : LList) : Prop :=
  result.Perm orig ∧ (StrictWeakOrder lt → Sorted lt result)

/-- the standard `<` on the values lists of this spec hold: numbers by value, strings bytewise
    (lower-case hex preserves the byte order); `none` = the comparison raises. -/
def stdLt : Val → Val → Option Bool
  | .int a, .int b => some (decide (a < b))
  | .str a, .str b => some (decide (a < b))
  | _, _ => none

end GLua.TableLibSpec
