/-
  Spec for C09 (written from the property text / Lua 5.1 manual §2.5.5, §5.1 `next`):
  a table is a finite map from non-nil keys to non-nil values; storing nil deletes.
-/
import GLua.Basic

namespace GLua.TableSpec
open GLua

/-- the abstract table: a total function to optional values (finite support is carried by `dom`
    in the executable wrapper below, not needed for the laws). -/
abbrev SMap := Val → OVal

def SMap.empty : SMap := fun _ => none
def SMap.set (m : SMap) (k : Val) (v : OVal) : SMap := fun k' => if k' = k then v else m k'

/-- `n` is a border of `m` (manual §2.5.5). -/
def isBorder (m : SMap) (n : Nat) : Prop :=
  (n = 0 ∧ m (.int 1) = none) ∨ (n > 0 ∧ m (.int n) ≠ none ∧ m (.int (n + 1)) = none)

instance (m : SMap) (n : Nat) : Decidable (isBorder m n) := by unfold isBorder; infer_instance

/-- the list helpers as transformers of the abstract map (manual §5.5; `n` is the length of the list window):
    `table.insert(t, pos, v)` "inserts element v at position pos, shifting up other elements to open space";
    a position outside `1 … n` is a plain store. -/
def SMap.insertAt (m : SMap) (n : Nat) (pos : Int) (v : OVal) : SMap :=
  if pos ≤ 0 ∨ pos > n then m.set (.int pos) v
  else fun k => match k with
    | .int j => if pos < j ∧ j ≤ (n : Int) + 1 then m (.int (j - 1)) else if j = pos then v else m k
    | _ => m k

/-- `table.remove(t, pos)` "removes the element at position pos, shifting down other elements to close the
    space"; the last position is erased. -/
def SMap.removeAt (m : SMap) (n : Nat) (pos : Int) : SMap := fun k =>
  match k with
  | .int j => if pos ≤ j ∧ j < (n : Int) then m (.int (j + 1)) else if j = (n : Int) then none else m k
  | _ => m k

/-- executable wrapper: the map plus every key that was ever stored (to enumerate the support). -/
structure STbl where
  m : SMap := SMap.empty
  dom : List Val := []

def STbl.set (t : STbl) (k : Val) (v : OVal) : STbl :=
  { m := t.m.set k v, dom := if t.dom.contains k then t.dom else t.dom ++ [k] }

def STbl.support (t : STbl) : List Val := t.dom.filter (fun k => (t.m k).isSome)

end GLua.TableSpec
