/-
  C16 Spec — broken-down time in a zone without transitions (here: UTC) and the C89/C99 `strftime` directives
  in the "C" locale.  Calendar arithmetic is the proleptic Gregorian calendar (days ↔ civil date, the
  era/year-of-era decomposition); written from the C standard / Lua manual §5.8, not from the Go code.
  Core Lean only.
-/
import GLua.Spec.Numeral

namespace GLua.TimeSpec
open GLua.NumSpec (Bytes)

/-- day of the 400-year era (0 = March 1st of year 0 of the era) of year-of-era `yoe`, month `m`, day `d`. -/
def doeOfCivil (yoe m d : Int) : Int :=
  let mp := if m > 2 then m - 3 else m + 9
  let doy := (153 * mp + 2) / 5 + d - 1
  yoe * 365 + yoe / 4 - yoe / 100 + doy

/-- (year of era — the year that begins in March —, month, day) of a day of the era, 0 ≤ doe < 146097. -/
def civilOfDoe (doe : Int) : Int × Int × Int :=
  let yoe := (doe - doe / 1460 + doe / 36524 - doe / 146096) / 365
  let doy := doe - (365 * yoe + yoe / 4 - yoe / 100)
  let mp := (5 * doy + 2) / 153
  let d := doy - (153 * mp + 2) / 5 + 1
  let m := if mp < 10 then mp + 3 else mp - 9
  (yoe, m, d)

/-- days since 1970-01-01 of the civil date y-m-d (m in 1..12). -/
def daysFromCivil (y m d : Int) : Int :=
  let y := if m ≤ 2 then y - 1 else y
  let era := y / 400
  era * 146097 + doeOfCivil (y - era * 400) m d - 719468

/-- civil date of a day number. -/
def civilFromDays (z : Int) : Int × Int × Int :=
  let z := z + 719468
  let era := z / 146097
  let c := civilOfDoe (z - era * 146097)
  (if c.2.1 ≤ 2 then c.1 + era * 400 + 1 else c.1 + era * 400, c.2.1, c.2.2)

/-- the fields of `os.date("*t", t)` (isdst = false always in a zone without transitions). -/
structure Fields where
  year : Int
  month : Int
  day : Int
  hour : Int
  min : Int
  sec : Int
  wday : Int     -- 1 = Sunday
  yday : Int     -- 1 = January 1st
deriving DecidableEq, Repr, Inhabited

def fieldsOf (t : Int) : Fields :=
  let days := t / 86400
  let rem := t % 86400
  let (y, m, d) := civilFromDays days
  { year := y, month := m, day := d, hour := rem / 3600, min := rem % 3600 / 60, sec := rem % 60,
    wday := (days + 4) % 7 + 1, yday := days - daysFromCivil y 1 1 + 1 }

/-- `os.time(table)`: mktime — fields outside their range are normalised arithmetically. -/
def timeOf (year month day hour min sec : Int) : Int :=
  let y := year + (month - 1) / 12
  let m := (month - 1) % 12 + 1
  (daysFromCivil y m 1 + (day - 1)) * 86400 + hour * 3600 + min * 60 + sec

def timeOfFields (f : Fields) : Int := timeOf f.year f.month f.day f.hour f.min f.sec

/-! ### strftime -/

/-- ASCII text as bytes (for the engine only: `String` does not reduce in the kernel, so every text the theorems
    look at is written as a byte list below). -/
def str (s : String) : Bytes := s.toUTF8.toList.map (·.toNat)

def pad2 (n : Int) : Bytes := [48 + (n.toNat / 10 % 10), 48 + n.toNat % 10]

/-- "Sunday" … "Saturday" -/
def weekdayNames : List Bytes := [
  [83, 117, 110, 100, 97, 121],
  [77, 111, 110, 100, 97, 121],
  [84, 117, 101, 115, 100, 97, 121],
  [87, 101, 100, 110, 101, 115, 100, 97, 121],
  [84, 104, 117, 114, 115, 100, 97, 121],
  [70, 114, 105, 100, 97, 121],
  [83, 97, 116, 117, 114, 100, 97, 121]]
/-- "January" … "December" -/
def monthNames : List Bytes := [
  [74, 97, 110, 117, 97, 114, 121],
  [70, 101, 98, 114, 117, 97, 114, 121],
  [77, 97, 114, 99, 104],
  [65, 112, 114, 105, 108],
  [77, 97, 121],
  [74, 117, 110, 101],
  [74, 117, 108, 121],
  [65, 117, 103, 117, 115, 116],
  [83, 101, 112, 116, 101, 109, 98, 101, 114],
  [79, 99, 116, 111, 98, 101, 114],
  [78, 111, 118, 101, 109, 98, 101, 114],
  [68, 101, 99, 101, 109, 98, 101, 114]]

def weekdayName (wday : Int) : Bytes := weekdayNames.getD (wday - 1).toNat [63]
def monthName (month : Int) : Bytes := monthNames.getD (month - 1).toNat [63]

def sAM : Bytes := [65, 77]
def sPM : Bytes := [80, 77]
def sam : Bytes := [97, 109]
def spm : Bytes := [112, 109]
def sUTC : Bytes := [85, 84, 67]
def sPlus0000 : Bytes := [43, 48, 48, 48, 48]

def hour12 (h : Int) : Int := if h % 12 = 0 then 12 else h % 12

inductive Dir where
  | text (b : Bytes)      -- the directive denotes exactly these bytes
  | locale                -- supported, rendering left to the locale (no claim): %c
  | unsupported           -- not a directive the property speaks about
deriving DecidableEq, Repr

/-- rendering of one conversion specifier from the broken-down fields ("C" locale; zone UTC). -/
def directive (c : Nat) (f : Fields) : Dir :=
  match c with
  | 97 => /- %a -/ .text ((weekdayName f.wday).take 3)
  | 65 => /- %A -/ .text (weekdayName f.wday)
  | 98 => /- %b -/ .text ((monthName f.month).take 3)
  | 66 => /- %B -/ .text (monthName f.month)
  | 99 => /- %c -/ .locale
  | 100 => /- %d -/ .text (pad2 f.day)
  | 72 => /- %H -/ .text (pad2 f.hour)
  | 73 => /- %I -/ .text (pad2 (hour12 f.hour))
  | 109 => /- %m -/ .text (pad2 f.month)
  | 77 => /- %M -/ .text (pad2 f.min)
  | 112 => /- %p -/ .text (if f.hour < 12 then sAM else sPM)
  | 83 => /- %S -/ .text (pad2 f.sec)
  | 119 => /- %w -/ .text [48 + (f.wday - 1).toNat]
  | 120 => /- %x -/ .text (pad2 f.month ++ [47] ++ pad2 f.day ++ [47] ++ pad2 (f.year % 100))
  | 88 => /- %X -/ .text (pad2 f.hour ++ [58] ++ pad2 f.min ++ [58] ++ pad2 f.sec)
  | 121 => /- %y -/ .text (pad2 (f.year % 100))
  | 89 => /- %Y -/ .text (NumSpec.plainInt f.year)
  | 90 => /- %Z -/ .text sUTC
  -- C99 / glibc extensions that gopher-lua also offers
  | 70 => /- %F -/ .text (NumSpec.plainInt f.year ++ [45] ++ pad2 f.month ++ [45] ++ pad2 f.day)
  | 80 => /- %P -/ .text (if f.hour < 12 then sam else spm)
  | 122 => /- %z -/ .text sPlus0000
  | _ => .unsupported

/-- `os.date(fmt, t)` for a format made of literal text, `%%` and conversion specifiers; a lone trailing `%` is
    literal (Lua 5.1 os_date).  `none`: the format uses a directive the Spec makes no claim about. -/
def strftime (f : Fields) : Bytes → Option Bytes
  | [] => some []
  | [c] => some [c]
  | 37 :: 37 :: r => (strftime f r).map (37 :: ·)
  | 37 :: c :: r =>
    match directive c f with
    | .text b => (strftime f r).map (b ++ ·)
    | _ => none
  | c :: r => (strftime f r).map (c :: ·)

end GLua.TimeSpec
