#!/bin/bash
# usage: mut.sh <patch> <prop> [tier]  — apply a seeded change to /repo, run the property's check, undo it.
# (development helper; never leaves /repo modified)
patch=$1; prop=$2; tier=${3:-quick}
cd /repo || exit 2
if ! git diff --quiet; then echo "repo dirty"; exit 2; fi
git apply "$patch" 2>/dev/null || git apply -3 "$patch" || { echo "patch does not apply"; git checkout -- .; exit 3; }
cd ${VERIF_ROOT:-/verif} && VERIF_EVIDENCE_DIR=/scratch/mutev ./check $prop --tier $tier ${SEED:+--seed $SEED}; rc=$?
git -C /repo checkout -- . ; git -C /repo reset -q
echo "exit=$rc"
exit $rc
