#!/bin/bash
# usage: mut.sh <patch> <prop> [tier]  — run the property's check against a seeded change applied to a SCRATCH worktree of
# /repo's HEAD (development helper; /repo itself is never touched, so other checks can run at the same time).
# The interface-level way (git -C /repo apply <patch>; ./check <prop>; git -C /repo checkout -- .) gives the same result.
patch=$(readlink -f "$1"); prop=$2; tier=${3:-quick}
wt=/scratch/mutwt.$$; rm -rf $wt
git -C /repo worktree add --detach $wt HEAD >/dev/null 2>&1 || { echo "cannot create worktree"; exit 2; }
(cd $wt && (git apply "$patch" 2>/dev/null || git apply -3 "$patch")) || { echo "patch does not apply"; git -C /repo worktree remove --force $wt; exit 3; }
cd ${VERIF_ROOT:-/verif} && VERIF_REPO=$wt VERIF_EVIDENCE_DIR=/scratch/mutev ./check $prop --tier $tier ${SEED:+--seed $SEED}; rc=$?
git -C /repo worktree remove --force $wt
TAG=$(echo "$wt" | md5sum | cut -c1-8); rm -f ${VERIF_ROOT:-/verif}/bin/glcheck.$TAG ${VERIF_ROOT:-/verif}/bin/glcheck-race.$TAG ${VERIF_ROOT:-/verif}/.work/go.$TAG.*
echo "exit=$rc"
exit $rc
