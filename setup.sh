#!/bin/bash
# Build the framework from files on disk only (offline).
set -e
export GOFLAGS=-mod=mod GOPROXY=off GOSUMDB=off GOTOOLCHAIN=local CGO_ENABLED=0
ROOT=${VERIF_ROOT:-$(dirname "$(readlink -f "$0")")}
cd $ROOT
mkdir -p bin evidence .work
(cd tools/extract && go build -o $ROOT/bin/extract .)
./bin/extract /repo $ROOT/lean/GLua/Generated
(cd lean && lake build gluadrv GLua.AuditCmd GLua)
(cd harness && cp /repo/go.sum go.sum && go build -tags verif -o $ROOT/bin/glcheck .)
echo setup-ok
