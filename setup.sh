#!/bin/bash
# Build the framework from files on disk only (offline).
set -e
export GOFLAGS=-mod=mod GOPROXY=off GOSUMDB=off GOTOOLCHAIN=local CGO_ENABLED=0
cd /verif
mkdir -p bin evidence .work
(cd tools/extract && go build -o /verif/bin/extract .)
./bin/extract /repo /verif/lean/GLua/Generated
(cd lean && lake build gluadrv GLua.AuditCmd GLua)
(cd harness && cp /repo/go.sum go.sum && go build -tags verif -o /verif/bin/glcheck .)
echo setup-ok
