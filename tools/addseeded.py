#!/usr/bin/env python3
"""tools/addseeded.py <srcroot> <verify-prefix> <wave> <Cxx> <mK> [...more Cxx mK pairs]
Copies a sub-agent's confirmed change (<srcroot>/<Cxx>/_out/<mK>) into seeded/<Cxx>-<mK>/ with the integrator's
verification record (/scratch/mutverify/<prefix><Cxx>_<mK>.json, written by verifyN.sh).  Development tool."""
import json, os, shutil, glob, sys
srcroot, prefix, wave = sys.argv[1:4]
pairs = sys.argv[4:]
head = os.popen("git -C /repo rev-parse --short HEAD").read().strip()
for p, m in zip(pairs[0::2], pairs[1::2]):
    src = f"{srcroot}/{p}/_out/{m}"
    v = json.load(open(f"/scratch/mutverify/{prefix}{p}_{m}.json"))
    meta = json.load(open(src + "/meta.json"))
    ok = v["applies"] == "yes" and not v["build"] and v["suite"].startswith("ok") and v["demo_clean"].startswith("ok") and "FAIL" in v["demo_mutant"]
    if not ok:
        print("NOT CONFIRMED", p, m, v); continue
    dst = f"/verif/seeded/{p}-{m}"
    os.makedirs(dst, exist_ok=True)
    shutil.copy(f"/scratch/mutverify/{prefix}{p}_{m}.diff", dst + "/patch.diff")
    shutil.copy(glob.glob(src + "/*_test.go")[0], dst + "/demo_test.go")
    json.dump({"id": f"{p}-{m}", "property": p, "summary": meta.get("summary"), "needs": meta.get("needs"),
               "origin": f"independent sub-agent (wave {wave}) given only the property text, the list of sites used by earlier waves, and a scratch worktree",
               "verified_by_integrator": {"tree": f"scratch worktree of /repo {head} (incl. all fix: commits)", "applies": v["applies"], "build": "ok",
                   "existing_test_suite": v["suite"], "demo_on_clean_tree": v["demo_clean"], "demo_with_patch": v["demo_mutant"], "demo_test": v["test"],
                   "command": f"git apply patch.diff; go build ./...; go test -vet=off -count=1 .; cp demo_test.go zz_demo_test.go; go test -run ^{v['test']}$ ."},
               "detected_by": "(filled in when the check is run against it)"}, open(dst + "/meta.json", "w"), indent=1)
    print("added", p, m)
