#!/usr/bin/env python3
"""audit.py <prop> <build_ok> <build_log> <out.json>
Lists every theorem in namespace GLua.Props.<prop> with its axioms (via a generated Lean file that imports
the property module), greps the Lean sources for forbidden constructs, and writes the audit JSON the
harness turns into evidence (obligations / discharged are counted from this output)."""
import json, os, re, subprocess, sys
prop, build_ok, build_log, out = sys.argv[1], sys.argv[2] == 'true', sys.argv[3], sys.argv[4]
root = os.environ.get('VERIF_ROOT', '/verif') + '/lean'
ALLOWED = {'propext', 'Classical.choice', 'Quot.sound'}
res = {'theorems': [], 'checker_cmd': 'lake build GLua.Props.%s && lake env lean .audit/Audit%s.lean (Lean.collectAxioms on every theorem of namespace GLua.Props.%s)' % (prop, prop, prop),
       'build_ok': build_ok, 'broken': [], 'generated_ok': True}
log = open(build_log).read() if os.path.exists(build_log) else ''
if not build_ok:
    res['build_log'] = log[-4000:]
    # names of the declarations / modules that failed
    for m in re.finditer(r'error: ([^\n]+)', log):
        res['broken'].append(m.group(1)[:300])
    res['broken'] = res['broken'][:20] or ['lake build GLua.Props.%s failed' % prop]
else:
    os.makedirs(root + '/.audit', exist_ok=True)
    f = root + '/.audit/Audit%s.lean' % prop
    open(f, 'w').write('import GLua.Props.%s\nimport GLua.AuditCmd\n#glua_audit GLua.Props.%s\n' % (prop, prop))
    p = subprocess.run(['lake', 'env', 'lean', f], cwd=root, capture_output=True, text=True)
    # obligations = the theorems written out in the property file (auto-generated equation lemmas are not counted)
    srcp = open(root + '/GLua/Props/%s.lean' % prop).read()
    srcp = re.sub(r'/-.*?-/', '', srcp, flags=re.S)
    declared = set('GLua.Props.%s.%s' % (prop, m.group(1)) for m in re.finditer(r'^\s*theorem\s+([\w.\']+)', srcp, re.M))
    for line in p.stdout.splitlines():
        if line.startswith('THEOREM '):
            parts = line.split()
            name, axioms = parts[1], parts[2:]
            if name not in declared: continue
            ok = all(a in ALLOWED for a in axioms)
            res['theorems'].append({'name': name, 'axioms': axioms, 'ok': ok})
            if not ok:
                res['broken'].append('%s depends on inadmissible axioms %s' % (name, axioms))
    if p.returncode != 0 or not res['theorems']:
        res['build_ok'] = False
        res['broken'].append('audit failed: ' + (p.stderr or p.stdout)[-500:])
# source grep (comments stripped) over the transitive GLua imports of the property module
def deps(mod, seen):
    if mod in seen: return
    seen.add(mod)
    f = os.path.join(root, mod.replace('.', '/') + '.lean')
    if not os.path.exists(f): return
    for m in re.finditer(r'^import (GLua[\w.]*)', open(f).read(), re.M):
        deps(m.group(1), seen)
mods = set(); deps('GLua.Props.%s' % prop, mods)
bad = re.compile(r'\bsorry\b|\badmit\b|^axiom |native_decide|bv_decide|implemented_by|\bunsafe |maxHeartbeats 0', re.M)
for mod in sorted(mods):
    fpath = os.path.join(root, mod.replace('.', '/') + '.lean')
    if not os.path.exists(fpath): continue
    src = open(fpath).read()
    src = re.sub(r'/-.*?-/', '', src, flags=re.S)
    src = re.sub(r'--[^\n]*', '', src)
    for m in bad.finditer(src):
        res['broken'].append('forbidden construct %r in %s' % (m.group(0), fpath))
res['modules'] = sorted(mods)
# thorough tier: the toolchain's independent re-checker replays the compiled declarations of the property module and of
# every GLua module it imports (transitively) through a fresh kernel
if os.environ.get('VERIF_LEANCHECKER') == '1' and res['build_ok']:
    p = subprocess.run(['lake', 'env', 'leanchecker'] + sorted(mods), cwd=root, capture_output=True, text=True)
    res['leanchecker'] = {'modules': len(mods), 'exit': p.returncode, 'output': (p.stdout + p.stderr)[-600:]}
    if p.returncode != 0:
        res['broken'].append('leanchecker rejected the compiled modules: ' + (p.stderr or p.stdout)[-300:])
    else:
        res['checker_cmd'] += ' && lake env leanchecker <%d modules: the property module and its transitive GLua imports>' % len(mods)
json.dump(res, open(out, 'w'), indent=1)
