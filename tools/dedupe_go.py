#!/usr/bin/env python3
"""dedupe_go.py <prefix> <file>...  — rename top-level identifiers declared in the given files that collide with
declarations in the other harness files (package main), prefixing them with <prefix>."""
import re,sys,glob,os
prefix=sys.argv[1]; files=[os.path.abspath(f) for f in sys.argv[2:]]
decl=re.compile(r'^(?:func (?:\([^)]*\) )?|type |var |const )(\w+)',re.M)
def top_names(src):
    names=set(decl.findall(src))
    # names inside var(...)/const(...) blocks
    for m in re.finditer(r'^(?:var|const) \((.*?)^\)',src,re.M|re.S):
        for l in m.group(1).split('\n'):
            mm=re.match(r'\s+(\w+)',l)
            if mm: names.add(mm.group(1))
    return names
# method names are not top-level: exclude `func (r *T) name`
def top_nonmethod(src):
    n=set(re.findall(r'^func (\w+)\(',src,re.M))|set(re.findall(r'^type (\w+)',src,re.M))|set(re.findall(r'^(?:var|const) (\w+)',src,re.M))
    for m in re.finditer(r'^(?:var|const) \((.*?)^\)',src,re.M|re.S):
        for l in m.group(1).split('\n'):
            mm=re.match(r'\s+(\w+)\b',l)
            if mm and not l.strip().startswith('//'): n.add(mm.group(1))
    return n
others=set()
for f in glob.glob(os.path.dirname(files[0])+'/*.go'):
    if os.path.abspath(f) in files: continue
    others|=top_nonmethod(open(f).read())
mine=set()
for f in files: mine|=top_nonmethod(open(f).read())
coll=sorted((mine&others)-{'init','main','_'})
print('renaming',coll)
for f in files:
    s=open(f).read()
    for n in coll:
        s=re.sub(r'(?<![\w.])%s\b'%re.escape(n), prefix+n, s)
    open(f,'w').write(s)
