package main

// further generated files are added here as properties need them
func emitExtra(root *pkgInfo) {}
