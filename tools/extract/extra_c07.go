package main

// further generated files are added here as properties need them

import (
	"crypto/sha256"
	"fmt"
	"go/ast"
	"go/token"
	"math/bits"
	"os"
	"path/filepath"
	"strconv"
	"strings"
)

func emitExtraC07(root *pkgInfo) { emitOpcode(root) }

// ------------------------------------------------------------------------------------------------
// C07: Generated/Opcode.lean — the straight-line integer functions of /repo/opcode.go translated
// mechanically into Lean div/mod arithmetic (DESIGN Appendix A/E):
//
//	uint32 values        → Nat   (meaningful for values < 2^32; every theorem carries that hypothesis or proves it)
//	int parameters       → Int   (Go `int` is treated as unbounded; `<<` on an int is accepted only directly
//	                              under a uint32(·) conversion, where reduction mod 2^32 makes that exact)
//	x >> k               → x / 2^k            x << k → x * 2^k
//	x & (run of ones)    → (x / 2^lo % 2^w) * 2^lo        (two's complement for Int via Euclidean div/mod)
//	x & (ones with hole) → x - (x / 2^lo % 2^w) * 2^lo
//	x | y                → x + y  only when the possibly-set bits of x and y are disjoint (bit-range analysis)
//	x | 2^k              → x + (1 - x / 2^k % 2) * 2^k
//	*p = e / f(&v, …)    → functional update, the function returns the final value of the pointee
//
// Anything else makes the function `_untranslatable` (the dependent theorems then fail by construction).
// ------------------------------------------------------------------------------------------------

type lkind int

const (
	kN lkind = iota // Lean Nat
	kZ              // Lean Int
	kB              // Lean Bool
)

type lexpr struct {
	s      string
	k      lkind
	mask   uint64 // bits that may be set (kN; for kZ: all ones unless known)
	goU32  bool   // Go static type is uint32 (wrapping arithmetic is refused)
	isC    bool   // compile-time constant
	cval   int64
	hasShl bool // contains an Int `<<` not yet reduced by uint32(·)
}

type lfunc struct {
	name    string
	params  []string
	pkinds  []lkind
	ptr     int // index of the *uint32 parameter, -1 if none
	ret     lkind
	retMask uint64
	body    string
}

type optrans struct {
	consts map[string]int64
	funcs  map[string]*lfunc
	env    map[string]lexpr
	err    string
}

func (t *optrans) fail(format string, a ...interface{}) lexpr {
	if t.err == "" {
		t.err = fmt.Sprintf(format, a...)
	}
	return lexpr{s: "0", k: kN}
}

func pow2(k int) string { return new2(k) }
func new2(k int) string {
	if k < 63 {
		return strconv.FormatUint(uint64(1)<<uint(k), 10)
	}
	return "(2^" + strconv.Itoa(k) + ")"
}

func (t *optrans) constOf(e ast.Expr) (int64, bool) {
	switch x := e.(type) {
	case *ast.BasicLit:
		if x.Kind == token.INT {
			v, err := strconv.ParseUint(x.Value, 0, 64)
			return int64(v), err == nil
		}
	case *ast.Ident:
		v, ok := t.consts[x.Name]
		if _, shadow := t.env[x.Name]; shadow {
			return 0, false
		}
		return v, ok
	case *ast.ParenExpr:
		return t.constOf(x.X)
	case *ast.UnaryExpr:
		v, ok := t.constOf(x.X)
		if !ok {
			return 0, false
		}
		switch x.Op {
		case token.XOR:
			return ^v, true
		case token.SUB:
			return -v, true
		}
	case *ast.BinaryExpr:
		a, ok1 := t.constOf(x.X)
		b, ok2 := t.constOf(x.Y)
		if ok1 && ok2 {
			switch x.Op {
			case token.SHL:
				return a << uint(b), true
			case token.SHR:
				return a >> uint(b), true
			case token.SUB:
				return a - b, true
			case token.ADD:
				return a + b, true
			case token.AND:
				return a & b, true
			case token.OR:
				return a | b, true
			}
		}
	}
	return 0, false
}

// run reports whether m is one contiguous run of ones [lo, hi)
func run(m uint64) (lo, hi int, ok bool) {
	if m == 0 {
		return 0, 0, false
	}
	lo = bits.TrailingZeros64(m)
	w := bits.TrailingZeros64(^(m >> uint(lo)))
	hi = lo + w
	if hi < 64 && m>>uint(hi) != 0 {
		return 0, 0, false
	}
	return lo, hi, true
}

func asZ(e lexpr) string {
	if e.k == kZ {
		return e.s
	}
	return "((" + e.s + " : Nat) : Int)"
}

func (t *optrans) expr(e ast.Expr, underU32 bool) lexpr {
	if v, ok := t.constOf(e); ok {
		if v >= 0 {
			return lexpr{s: strconv.FormatInt(v, 10), k: kN, mask: uint64(v), isC: true, cval: v}
		}
		return lexpr{s: "(" + strconv.FormatInt(v, 10) + ")", k: kZ, mask: ^uint64(0), isC: true, cval: v}
	}
	switch x := e.(type) {
	case *ast.ParenExpr:
		return t.expr(x.X, underU32)
	case *ast.Ident:
		if v, ok := t.env[x.Name]; ok {
			return v
		}
		return t.fail("unknown identifier %s", x.Name)
	case *ast.StarExpr:
		if id, ok := x.X.(*ast.Ident); ok {
			if v, ok := t.env[id.Name]; ok {
				return v
			}
		}
		return t.fail("unsupported dereference")
	case *ast.CallExpr:
		id, ok := x.Fun.(*ast.Ident)
		if !ok {
			return t.fail("unsupported call")
		}
		switch id.Name {
		case "int":
			a := t.expr(x.Args[0], false)
			a.goU32 = false
			return a
		case "bool":
			return t.expr(x.Args[0], false)
		case "uint32":
			a := t.expr(x.Args[0], true)
			if a.k == kZ {
				return lexpr{s: "(" + a.s + " % 4294967296).toNat", k: kN, mask: a.mask & 0xffffffff, goU32: true}
			}
			if a.mask>>32 != 0 {
				return lexpr{s: "(" + a.s + " % 4294967296)", k: kN, mask: a.mask & 0xffffffff, goU32: true}
			}
			a.goU32 = true
			a.hasShl = false
			return a
		}
		f, ok := t.funcs[id.Name]
		if !ok || f.ptr >= 0 {
			return t.fail("call of untranslated function %s", id.Name)
		}
		parts := []string{f.name}
		for i, a := range x.Args {
			ae := t.expr(a, false)
			if f.pkinds[i] == kZ {
				parts = append(parts, asZ(ae))
			} else if ae.k != kN {
				return t.fail("argument kind mismatch in call of %s", id.Name)
			} else {
				parts = append(parts, "("+ae.s+")")
			}
		}
		m := f.retMask
		if f.ret == kZ {
			m = ^uint64(0)
		}
		return lexpr{s: "(" + strings.Join(parts, " ") + ")", k: f.ret, mask: m}
	case *ast.BinaryExpr:
		switch x.Op {
		case token.SHR, token.SHL:
			k, ok := t.constOf(x.Y)
			if !ok || k < 0 || k > 62 {
				return t.fail("shift by a non-constant")
			}
			a := t.expr(x.X, underU32)
			if x.Op == token.SHR {
				if a.hasShl {
					return t.fail(">> applied to an unreduced int <<")
				}
				return lexpr{s: "(" + a.s + " / " + pow2(int(k)) + ")", k: a.k, mask: shrMask(a, uint(k)), goU32: a.goU32}
			}
			if a.goU32 {
				return t.fail("uint32 << may wrap")
			}
			if !underU32 {
				return t.fail("int << outside uint32(·)")
			}
			return lexpr{s: "(" + a.s + " * " + pow2(int(k)) + ")", k: a.k, mask: a.mask << uint(k), hasShl: true}
		case token.AND:
			a, b := x.X, x.Y
			m, ok := t.constOf(b)
			if !ok {
				m, ok = t.constOf(a)
				a = b
			}
			if !ok {
				return t.fail("& with two non-constant operands")
			}
			v := t.expr(a, underU32)
			if v.hasShl {
				return t.fail("& applied to an unreduced int <<")
			}
			keep := uint64(m) & v.mask
			drop := v.mask &^ uint64(m)
			if drop == 0 {
				return v
			}
			if lo, hi, ok := run(keep); ok && hi <= 62 {
				s := v.s
				if lo > 0 {
					s = "(" + s + " / " + pow2(lo) + ")"
				}
				s = "(" + s + " % " + pow2(hi-lo) + ")"
				if v.k == kZ {
					s += ".toNat"
				}
				if lo > 0 {
					s = "(" + s + " * " + pow2(lo) + ")"
				}
				return lexpr{s: s, k: kN, mask: keep, goU32: v.goU32}
			}
			if lo, hi, ok := run(drop); ok && hi <= 62 {
				s := "(" + v.s + " - (" + v.s + " / " + pow2(lo) + " % " + pow2(hi-lo) + ") * " + pow2(lo) + ")"
				return lexpr{s: s, k: v.k, mask: keep, goU32: v.goU32}
			}
			return t.fail("& with a mask that is neither a run of ones nor its complement")
		case token.OR:
			a := t.expr(x.X, underU32)
			b := t.expr(x.Y, underU32)
			if a.hasShl || b.hasShl {
				return t.fail("| applied to an unreduced int <<")
			}
			if a.k == kN && b.k == kN && a.mask&b.mask == 0 {
				return lexpr{s: "(" + a.s + " + " + b.s + ")", k: kN, mask: a.mask | b.mask, goU32: a.goU32 || b.goU32}
			}
			if a.isC {
				a, b = b, a
			}
			if b.isC && b.cval > 0 && b.cval&(b.cval-1) == 0 {
				k := bits.TrailingZeros64(uint64(b.cval))
				s := "(" + a.s + " + (1 - " + a.s + " / " + pow2(k) + " % 2) * " + pow2(k) + ")"
				return lexpr{s: s, k: a.k, mask: a.mask | uint64(b.cval), goU32: a.goU32}
			}
			return t.fail("| of operands whose bit ranges may overlap")
		case token.ADD, token.SUB:
			a := t.expr(x.X, false)
			b := t.expr(x.Y, false)
			if a.goU32 || b.goU32 {
				return t.fail("uint32 +/- may wrap")
			}
			if a.hasShl || b.hasShl {
				return t.fail("+/- applied to an unreduced int <<")
			}
			op := " + "
			if x.Op == token.SUB {
				op = " - "
			}
			if a.k == kN && b.k == kN && x.Op == token.ADD {
				return lexpr{s: "(" + a.s + " + " + b.s + ")", k: kN, mask: ^uint64(0) >> 1}
			}
			return lexpr{s: "(" + asZ(a) + op + asZ(b) + ")", k: kZ, mask: ^uint64(0)}
		case token.NEQ, token.EQL, token.LSS, token.LEQ, token.GTR, token.GEQ:
			a := t.expr(x.X, false)
			b := t.expr(x.Y, false)
			if a.hasShl || b.hasShl {
				return t.fail("comparison of an unreduced int <<")
			}
			op := map[token.Token]string{token.NEQ: " ≠ ", token.EQL: " = ", token.LSS: " < ", token.LEQ: " ≤ ", token.GTR: " > ", token.GEQ: " ≥ "}[x.Op]
			if a.k == kN && b.k == kN {
				return lexpr{s: "decide (" + a.s + op + b.s + ")", k: kB}
			}
			return lexpr{s: "decide (" + asZ(a) + op + asZ(b) + ")", k: kB}
		}
		return t.fail("unsupported operator %s", x.Op)
	}
	return t.fail("unsupported expression %T", e)
}

func shrMask(a lexpr, k uint) uint64 {
	if a.k == kZ && a.mask == ^uint64(0) {
		return a.mask
	}
	return a.mask >> k
}

func goTypeOf(e ast.Expr) string {
	switch x := e.(type) {
	case *ast.Ident:
		return x.Name
	case *ast.StarExpr:
		return "*" + goTypeOf(x.X)
	}
	return "?"
}

func kindName(k lkind) string {
	return map[lkind]string{kN: "Nat", kZ: "Int", kB: "Bool"}[k]
}

// translate one function declaration
func (t *optrans) fn(fd *ast.FuncDecl) *lfunc {
	t.err = ""
	t.env = map[string]lexpr{}
	f := &lfunc{name: fd.Name.Name, ptr: -1}
	idx := 0
	for _, fl := range fd.Type.Params.List {
		ty := goTypeOf(fl.Type)
		for _, nm := range fl.Names {
			switch ty {
			case "uint32":
				f.pkinds = append(f.pkinds, kN)
				t.env[nm.Name] = lexpr{s: nm.Name, k: kN, mask: 0xffffffff, goU32: true}
			case "*uint32":
				f.pkinds = append(f.pkinds, kN)
				f.ptr = idx
				t.env[nm.Name] = lexpr{s: nm.Name, k: kN, mask: 0xffffffff, goU32: true}
			case "int":
				f.pkinds = append(f.pkinds, kZ)
				t.env[nm.Name] = lexpr{s: nm.Name, k: kZ, mask: ^uint64(0)}
			default:
				t.fail("parameter type %s", ty)
			}
			f.params = append(f.params, nm.Name)
			idx++
		}
	}
	var lets []string
	var result *lexpr
	ptrName := ""
	if f.ptr >= 0 {
		ptrName = f.params[f.ptr]
	}
	assign := func(name string, v lexpr) {
		if v.k != kN {
			t.fail("assignment of a non-uint32 value to %s", name)
		}
		lets = append(lets, fmt.Sprintf("  let %s : Nat := %s", name, v.s))
		t.env[name] = lexpr{s: name, k: kN, mask: v.mask | 0, goU32: true}
	}
	for _, st := range fd.Body.List {
		if result != nil {
			t.fail("statement after return")
			break
		}
		switch s := st.(type) {
		case *ast.ReturnStmt:
			if len(s.Results) == 1 {
				r := t.expr(s.Results[0], false)
				if r.hasShl {
					t.fail("return of an unreduced int <<")
				}
				result = &r
			} else if len(s.Results) != 0 || f.ptr < 0 {
				t.fail("unsupported return")
			}
		case *ast.DeclStmt:
			gd, ok := s.Decl.(*ast.GenDecl)
			if !ok || gd.Tok != token.VAR || len(gd.Specs) != 1 {
				t.fail("unsupported declaration")
				break
			}
			vs := gd.Specs[0].(*ast.ValueSpec)
			if len(vs.Names) != 1 || len(vs.Values) != 1 || goTypeOf(vs.Type) != "uint32" {
				t.fail("unsupported var declaration")
				break
			}
			assign(vs.Names[0].Name, t.expr(vs.Values[0], false))
		case *ast.AssignStmt:
			if len(s.Lhs) != 1 || len(s.Rhs) != 1 || s.Tok != token.ASSIGN {
				t.fail("unsupported assignment")
				break
			}
			st, ok := s.Lhs[0].(*ast.StarExpr)
			if !ok || goTypeOf(st.X) != ptrName || ptrName == "" {
				t.fail("assignment to something other than *%s", ptrName)
				break
			}
			assign(ptrName, t.expr(s.Rhs[0], false))
		case *ast.ExprStmt:
			// setter call: g(&v, args…) or g(p, args…) with p the pointer parameter
			ce, ok := s.X.(*ast.CallExpr)
			if !ok {
				t.fail("unsupported statement")
				break
			}
			id, _ := ce.Fun.(*ast.Ident)
			var g *lfunc
			if id != nil {
				g = t.funcs[id.Name]
			}
			if g == nil || g.ptr != 0 || len(ce.Args) != len(g.params) {
				t.fail("unsupported call statement")
				break
			}
			target := ""
			switch a := ce.Args[0].(type) {
			case *ast.UnaryExpr:
				if a.Op == token.AND {
					target = goTypeOf(a.X)
				}
			case *ast.Ident:
				if a.Name == ptrName {
					target = a.Name
				}
			}
			if _, ok := t.env[target]; !ok || target == "" {
				t.fail("setter call on an unknown variable")
				break
			}
			parts := []string{g.name, target}
			for i := 1; i < len(ce.Args); i++ {
				ae := t.expr(ce.Args[i], false)
				if g.pkinds[i] == kZ {
					parts = append(parts, asZ(ae))
				} else {
					parts = append(parts, "("+ae.s+")")
				}
			}
			assign(target, lexpr{s: strings.Join(parts, " "), k: kN, mask: 0xffffffff})
		default:
			t.fail("unsupported statement %T", st)
		}
	}
	if result == nil {
		if f.ptr < 0 {
			t.fail("no result")
			return f
		}
		r := t.env[ptrName]
		result = &r
	}
	f.ret, f.retMask = result.k, result.mask
	var sb strings.Builder
	fmt.Fprintf(&sb, "def %s", f.name)
	for i, p := range f.params {
		fmt.Fprintf(&sb, " (%s : %s)", p, kindName(f.pkinds[i]))
	}
	fmt.Fprintf(&sb, " : %s :=\n", kindName(f.ret))
	for _, l := range lets {
		sb.WriteString(l + "\n")
	}
	sb.WriteString("  " + result.s + "\n")
	f.body = sb.String()
	return f
}

var opcodeFuncs = []string{"opGetOpCode", "opSetOpCode", "opGetArgA", "opSetArgA", "opGetArgB", "opSetArgB", "opGetArgC", "opSetArgC",
	"opGetArgBx", "opSetArgBx", "opGetArgSbx", "opSetArgSbx", "opCreateABC", "opCreateABx", "opCreateASbx", "opIsK", "opIndexK", "opRkAsk"}

func emitOpcode(root *pkgInfo) {
	file := root.files["opcode.go"]
	var sb strings.Builder
	sum := ""
	if b, err := os.ReadFile(filepath.Join(repo, "opcode.go")); err == nil {
		sum = fmt.Sprintf("%x", sha256.Sum256(b))
	}
	sb.WriteString("-- GENERATED by tools/extract from opcode.go @ sha256 " + sum + " — do not edit; rewritten on every check run\n")
	sb.WriteString("-- uint32 → Nat (< 2^32), int → Int, shifts/masks → div/mod of literal powers of two (see tools/extract/extra.go)\n")
	sb.WriteString("namespace GLua.Generated\n\n")
	if file == nil {
		sb.WriteString("def opcode_go_missing : Bool := true\nend GLua.Generated\n")
		writeIfChanged(filepath.Join(outDir, "Opcode.lean"), sb.String())
		return
	}
	t := &optrans{consts: root.intConsts(), funcs: map[string]*lfunc{}}
	decls := map[string]*ast.FuncDecl{}
	for _, d := range file.Decls {
		if fd, ok := d.(*ast.FuncDecl); ok && fd.Recv == nil && fd.Body != nil {
			decls[fd.Name.Name] = fd
		}
	}
	for _, name := range opcodeFuncs {
		fd := decls[name]
		if fd == nil {
			fmt.Fprintf(&sb, "def %s_untranslatable : Bool := true  -- function not found\n\n", name)
			continue
		}
		f := t.fn(fd)
		if t.err != "" {
			fmt.Fprintf(&sb, "def %s_untranslatable : Bool := true  -- %s\n\n", name, t.err)
			fmt.Fprintln(os.Stderr, "opcode: cannot translate", name, ":", t.err)
			continue
		}
		t.funcs[name] = f
		sb.WriteString(f.body + "\n")
	}
	// opcode names in numbering order and their operand layout, from opProps
	type prop struct{ name, typ string }
	var props []prop
	for _, d := range file.Decls {
		gd, ok := d.(*ast.GenDecl)
		if !ok || gd.Tok != token.VAR {
			continue
		}
		for _, s := range gd.Specs {
			vs := s.(*ast.ValueSpec)
			if len(vs.Names) != 1 || vs.Names[0].Name != "opProps" || len(vs.Values) != 1 {
				continue
			}
			cl, ok := vs.Values[0].(*ast.CompositeLit)
			if !ok {
				continue
			}
			for _, el := range cl.Elts {
				e, ok := el.(*ast.CompositeLit)
				if !ok || len(e.Elts) != 6 {
					continue
				}
				nm, _ := e.Elts[0].(*ast.BasicLit)
				ty, _ := e.Elts[5].(*ast.Ident)
				if nm != nil && ty != nil {
					n, _ := strconv.Unquote(nm.Value)
					props = append(props, prop{n, ty.Name})
				}
			}
		}
	}
	sb.WriteString("/-- `opProps` of opcode.go: (name, operand layout) in opcode numbering order -/\n")
	sb.WriteString("def opProps : List (String × String) := [")
	for i, p := range props {
		if i > 0 {
			sb.WriteString(", ")
		}
		fmt.Fprintf(&sb, "(%q, %q)", p.name, p.typ)
	}
	sb.WriteString("]\n\nend GLua.Generated\n")
	writeIfChanged(filepath.Join(outDir, "Opcode.lean"), sb.String())
}

func init() { extraEmitters = append(extraEmitters, emitExtraC07) }
