package main

// further generated files are added here as properties need them

import (
	"fmt"
	"go/ast"
	"go/token"
	"path/filepath"
	"sort"
	"strings"
)

func emitExtraC13(root *pkgInfo) { emitC13(root) }

// ---------------------------------------------------------------------------------------------------------
// C13: syntactic facts about shared mutable state (go/ast only).
//
//   protoFields        field names of `type FunctionProto struct`
//   protoFieldWrites   statements outside compile.go / function.go that assign to (or increment, copy into, take the
//                      address of) an lvalue whose access path goes through a FunctionProto field name, directly or
//                      through a local alias (`code := p.Code; code[i] = …`).  Must be empty.
//   packageVars        every package-level `var` of the root package, pm/, parse/, ast/  (package, file, name)
//   packageVarWrites   statements inside function bodies other than `init` that assign to a package-level var or to
//                      an element/field reached from it (package, var, file:line func)
//   packageVarAddrs    explicit `&pkgVar…` inside function bodies (a pointer that could be written through)
// ---------------------------------------------------------------------------------------------------------

type c13Pkg struct {
	name string // "" for the root package
	info *pkgInfo
}

func rootIdent(e ast.Expr) (*ast.Ident, []string) {
	var sels []string
	for {
		switch x := e.(type) {
		case *ast.Ident:
			return x, sels
		case *ast.SelectorExpr:
			sels = append(sels, x.Sel.Name)
			e = x.X
		case *ast.IndexExpr:
			e = x.X
		case *ast.SliceExpr:
			e = x.X
		case *ast.StarExpr:
			e = x.X
		case *ast.ParenExpr:
			e = x.X
		case *ast.TypeAssertExpr:
			e = x.X
		default:
			return nil, sels
		}
	}
}


// ---- minimal syntactic type inference (enough to tell `dbg.LineDefined = …` on a *Debug from a write into a FunctionProto) ----

type c13Types struct {
	structs map[string]map[string]ast.Expr // struct type name → field name → field type
	funcs   map[string]ast.Expr            // function name → single result type
}

func c13CollectTypes(p *pkgInfo) *c13Types {
	t := &c13Types{structs: map[string]map[string]ast.Expr{}, funcs: map[string]ast.Expr{}}
	for _, f := range p.files {
		for _, d := range f.Decls {
			switch x := d.(type) {
			case *ast.GenDecl:
				for _, s := range x.Specs {
					ts, ok := s.(*ast.TypeSpec)
					if !ok {
						continue
					}
					if st, ok := ts.Type.(*ast.StructType); ok {
						m := map[string]ast.Expr{}
						for _, fl := range st.Fields.List {
							for _, nm := range fl.Names {
								m[nm.Name] = fl.Type
							}
							if len(fl.Names) == 0 { // embedded
								if n := c13BaseName(fl.Type); n != "" {
									m[n] = fl.Type
								}
							}
						}
						t.structs[ts.Name.Name] = m
					}
				}
			case *ast.FuncDecl:
				if x.Recv == nil && x.Type.Results != nil && len(x.Type.Results.List) == 1 && len(x.Type.Results.List[0].Names) <= 1 {
					t.funcs[x.Name.Name] = x.Type.Results.List[0].Type
				}
			}
		}
	}
	return t
}

func c13BaseName(t ast.Expr) string {
	for {
		switch x := t.(type) {
		case *ast.StarExpr:
			t = x.X
		case *ast.ParenExpr:
			t = x.X
		case *ast.Ident:
			return x.Name
		default:
			return ""
		}
	}
}

// typeOf returns the (syntactic) type expression of e, or nil when it cannot be told.
func (t *c13Types) typeOf(e ast.Expr, depth int) ast.Expr {
	if depth > 8 {
		return nil
	}
	switch x := e.(type) {
	case *ast.ParenExpr:
		return t.typeOf(x.X, depth+1)
	case *ast.Ident:
		if x.Obj == nil {
			return nil
		}
		switch d := x.Obj.Decl.(type) {
		case *ast.Field:
			return d.Type
		case *ast.ValueSpec:
			if d.Type != nil {
				return d.Type
			}
			for i, nm := range d.Names {
				if nm.Name == x.Name && i < len(d.Values) && len(d.Values) == len(d.Names) {
					return t.typeOf(d.Values[i], depth+1)
				}
			}
		case *ast.AssignStmt:
			if len(d.Lhs) == len(d.Rhs) {
				for i, l := range d.Lhs {
					if id, ok := l.(*ast.Ident); ok && id.Name == x.Name {
						return t.typeOf(d.Rhs[i], depth+1)
					}
				}
			}
		}
		return nil
	case *ast.UnaryExpr:
		if x.Op == token.AND {
			if in := t.typeOf(x.X, depth+1); in != nil {
				return &ast.StarExpr{X: in}
			}
		}
		return nil
	case *ast.CompositeLit:
		return x.Type
	case *ast.CallExpr:
		if id, ok := x.Fun.(*ast.Ident); ok {
			if id.Name == "new" && len(x.Args) == 1 {
				return &ast.StarExpr{X: x.Args[0]}
			}
			if r, ok := t.funcs[id.Name]; ok {
				return r
			}
		}
		return nil
	case *ast.StarExpr:
		if in, ok := t.typeOf(x.X, depth+1).(*ast.StarExpr); ok {
			return in.X
		}
		return nil
	case *ast.SelectorExpr:
		base := c13BaseName(t.typeOf(x.X, depth+1))
		if m, ok := t.structs[base]; ok {
			if ft, ok := m[x.Sel.Name]; ok {
				return ft
			}
			// promoted through one embedded struct
			for en, et := range m {
				if en == c13BaseName(et) {
					if m2, ok := t.structs[en]; ok {
						if ft, ok := m2[x.Sel.Name]; ok {
							return ft
						}
					}
				}
			}
		}
		return nil
	case *ast.IndexExpr:
		switch a := t.typeOf(x.X, depth+1).(type) {
		case *ast.ArrayType:
			return a.Elt
		case *ast.MapType:
			return a.Value
		}
		return nil
	case *ast.SliceExpr:
		return t.typeOf(x.X, depth+1)
	}
	return nil
}

// protoSelector reports whether the access path of e goes through `X.f` with f a FunctionProto field name and X
// of type FunctionProto — or of a type that cannot be told syntactically (conservative).
func (t *c13Types) protoSelector(e ast.Expr, isProtoField map[string]bool) bool {
	for {
		switch x := e.(type) {
		case *ast.SelectorExpr:
			if isProtoField[x.Sel.Name] {
				base := c13BaseName(t.typeOf(x.X, 0))
				if base == "FunctionProto" || base == "" {
					return true
				}
				if _, known := t.structs[base]; !known {
					return true
				}
			}
			e = x.X
		case *ast.IndexExpr:
			e = x.X
		case *ast.SliceExpr:
			e = x.X
		case *ast.StarExpr:
			e = x.X
		case *ast.ParenExpr:
			e = x.X
		case *ast.TypeAssertExpr:
			e = x.X
		default:
			return false
		}
	}
}

func emitC13(root *pkgInfo) {
	pkgs := []c13Pkg{{"", root}}
	for _, sub := range []string{"pm", "parse", "ast"} {
		pkgs = append(pkgs, c13Pkg{sub, load(filepath.Join(repo, sub))})
	}
	// FunctionProto field names
	var protoFields []string
	for _, f := range root.files {
		ast.Inspect(f, func(n ast.Node) bool {
			ts, ok := n.(*ast.TypeSpec)
			if !ok || ts.Name.Name != "FunctionProto" {
				return true
			}
			if st, ok := ts.Type.(*ast.StructType); ok {
				for _, fl := range st.Fields.List {
					for _, nm := range fl.Names {
						protoFields = append(protoFields, nm.Name)
					}
				}
			}
			return false
		})
	}
	sort.Strings(protoFields)
	isProtoField := map[string]bool{}
	for _, f := range protoFields {
		isProtoField[f] = true
	}

	var protoWrites, pkgVars, pkgWrites, pkgAddrs []string
	for _, pk := range pkgs {
		fnames := []string{}
		for n := range pk.info.files {
			fnames = append(fnames, n)
		}
		sort.Strings(fnames)
		// package-level vars
		isPkgVar := map[string]bool{}
		pkgSpec := map[interface{}]bool{}
		for _, fn := range fnames {
			for _, d := range pk.info.files[fn].Decls {
				gd, ok := d.(*ast.GenDecl)
				if !ok || gd.Tok != token.VAR {
					continue
				}
				for _, s := range gd.Specs {
					vs := s.(*ast.ValueSpec)
					pkgSpec[vs] = true
					for _, nm := range vs.Names {
						if nm.Name == "_" {
							continue
						}
						isPkgVar[nm.Name] = true
						pkgVars = append(pkgVars, fmt.Sprintf("(%s, %s, %s)", leanStr(pk.name), leanStr(fn), leanStr(nm.Name)))
					}
				}
			}
		}
		types := c13CollectTypes(pk.info)
		refersPkgVar := func(id *ast.Ident) bool {
			if id == nil || !isPkgVar[id.Name] {
				return false
			}
			if id.Obj == nil {
				return true // unresolved in this file: declared in another file of the package
			}
			return pkgSpec[id.Obj.Decl]
		}
		for _, fn := range fnames {
			file := pk.info.files[fn]
			for _, d := range file.Decls {
				fd, ok := d.(*ast.FuncDecl)
				if !ok || fd.Body == nil {
					continue
				}
				isInit := fd.Recv == nil && fd.Name.Name == "init"
				where := func(p token.Pos) string {
					pos := pk.info.fset.Position(p)
					return fmt.Sprintf("%s:%d %s", fn, pos.Line, fd.Name.Name)
				}
				whereFn := fn + " " + fd.Name.Name
				protoExempt := pk.name != "" || fn == "compile.go" || fn == "function.go"
				// local aliases of proto-owned memory: x := <path through a proto field>
				alias := map[*ast.Object]bool{}
				throughProto := func(e ast.Expr) bool {
					return types.protoSelector(e, isProtoField)
				}
				aliasRooted := func(e ast.Expr) bool { // x[i], x.f, *x with x an alias (not the bare identifier)
					id, _ := rootIdent(e)
					if id == nil || id.Obj == nil || !alias[id.Obj] {
						return false
					}
					_, bare := e.(*ast.Ident)
					return !bare
				}
				noteLhs := func(lhs ast.Expr, pos token.Pos, kind string) {
					id, _ := rootIdent(lhs)
					if !protoExempt && (throughProto(lhs) || aliasRooted(lhs)) {
						protoWrites = append(protoWrites, leanStr(where(pos)+" "+kind))
					}
					if !isInit && refersPkgVar(id) {
						pkgWrites = append(pkgWrites, fmt.Sprintf("(%s, %s, %s)", leanStr(pk.name), leanStr(id.Name), leanStr(where(pos)+" "+kind)))
					}
				}
				ast.Inspect(fd.Body, func(n ast.Node) bool {
					switch x := n.(type) {
					case *ast.AssignStmt:
						if x.Tok == token.DEFINE {
							// record aliases; a := defines locals, never writes shared state
							for i, l := range x.Lhs {
								if id, ok := l.(*ast.Ident); ok && id.Obj != nil && i < len(x.Rhs) && len(x.Lhs) == len(x.Rhs) {
									r := x.Rhs[i]
									if u, ok := r.(*ast.UnaryExpr); ok && u.Op == token.AND {
										r = u.X
									}
									// aliases of proto-owned memory: the right-hand side is a path through a proto field whose
									// type is a slice, a pointer or cannot be told (scalars are copies)
									if types.protoSelector(r, isProtoField) {
										switch types.typeOf(r, 0).(type) {
										case *ast.Ident:
											if u, ok := x.Rhs[i].(*ast.UnaryExpr); ok && u.Op == token.AND {
												alias[id.Obj] = true
											}
										default:
											alias[id.Obj] = true
										}
									}
								}
							}
							return true
						}
						for _, l := range x.Lhs {
							noteLhs(l, x.Pos(), "assign")
						}
					case *ast.IncDecStmt:
						noteLhs(x.X, x.Pos(), "incdec")
					case *ast.RangeStmt:
						if x.Tok == token.ASSIGN {
							if x.Key != nil {
								noteLhs(x.Key, x.Pos(), "range")
							}
							if x.Value != nil {
								noteLhs(x.Value, x.Pos(), "range")
							}
						}
					case *ast.CallExpr:
						if id, ok := x.Fun.(*ast.Ident); ok && id.Name == "copy" && len(x.Args) == 2 {
							noteLhs(x.Args[0], x.Pos(), "copy")
						}
					case *ast.UnaryExpr:
						if x.Op == token.AND {
							id, _ := rootIdent(x.X)
							if !protoExempt && throughProto(x.X) {
								protoWrites = append(protoWrites, leanStr(where(x.Pos())+" addr"))
							}
							if !isInit && refersPkgVar(id) {
								pkgAddrs = append(pkgAddrs, fmt.Sprintf("(%s, %s, %s)", leanStr(pk.name), leanStr(id.Name), leanStr(whereFn)))
							}
						}
					}
					return true
				})
			}
		}
	}
	var sb strings.Builder
	sb.WriteString("-- GENERATED by /verif/tools/extract from /repo (go/ast); do not edit — rewritten on every check run\n")
	sb.WriteString("namespace GLua.Generated.C13\n")
	list := func(name, typ string, items []string) {
		fmt.Fprintf(&sb, "def %s : List %s := [", name, typ)
		for i, it := range items {
			if i > 0 {
				sb.WriteString(",")
			}
			sb.WriteString("\n  " + it)
		}
		sb.WriteString("]\n")
	}
	pf := make([]string, len(protoFields))
	for i, f := range protoFields {
		pf[i] = leanStr(f)
	}
	list("protoFields", "String", pf)
	list("protoFieldWrites", "String", protoWrites)
	list("packageVars", "(String × String × String)", pkgVars)
	list("packageVarWrites", "(String × String × String)", pkgWrites)
	list("packageVarAddrs", "(String × String × String)", pkgAddrs)
	sb.WriteString("end GLua.Generated.C13\n")
	writeIfChanged(filepath.Join(outDir, "C13Facts.lean"), sb.String())
}

func init() { extraEmitters = append(extraEmitters, emitExtraC13) }
