package main

// Mechanical translation of straight-line integer functions of /repo into Lean (DESIGN.md Appendix E).
// Accepted subset: parameters of type int / bool / string (a string parameter becomes its length, a Nat);
// statements: `x := e`, `x = e`, `x op= e`, `if c { x = e }` (single assignment, no else),
// `if c { return a } else { return b }`, `if c { return a }`, `return e`;
// expressions over int with + - *, comparisons, ! && ||, parentheses, int literals, len(<string param>),
// calls of other translated functions.  Go `int` becomes Lean `Int` (no overflow: stated as an assumption of the
// theorems that use these functions).  Anything else makes the function `_untranslatable`, which breaks the
// dependent Lean module by construction (the function is then covered by differential testing only).

import (
	"fmt"
	"go/ast"
	"go/token"
	"path/filepath"
	"strings"
)

type fnTr struct {
	strParams map[string]bool
	boolVars  map[string]bool
	known     map[string]bool
	err       error
}

func (t *fnTr) fail(format string, a ...interface{}) string {
	if t.err == nil {
		t.err = fmt.Errorf(format, a...)
	}
	return "0"
}

// intExpr translates an int-valued expression.
func (t *fnTr) intExpr(e ast.Expr) string {
	switch x := e.(type) {
	case *ast.BasicLit:
		if x.Kind == token.INT {
			return x.Value
		}
	case *ast.Ident:
		return leanName(x.Name)
	case *ast.ParenExpr:
		return "(" + t.intExpr(x.X) + ")"
	case *ast.UnaryExpr:
		if x.Op == token.SUB {
			return "(-" + t.intExpr(x.X) + ")"
		}
	case *ast.BinaryExpr:
		switch x.Op {
		case token.ADD, token.SUB, token.MUL:
			return "(" + t.intExpr(x.X) + " " + x.Op.String() + " " + t.intExpr(x.Y) + ")"
		}
	case *ast.CallExpr:
		if id, ok := x.Fun.(*ast.Ident); ok {
			if id.Name == "len" && len(x.Args) == 1 {
				if a, ok := x.Args[0].(*ast.Ident); ok && t.strParams[a.Name] {
					return "(" + a.Name + "_len : Int)"
				}
			}
			if t.known[id.Name] {
				parts := []string{id.Name}
				for _, a := range x.Args {
					parts = append(parts, t.intExpr(a))
				}
				return "(" + strings.Join(parts, " ") + ")"
			}
		}
	}
	return t.fail("unsupported int expression %T", e)
}

// cond translates a bool-valued expression into a decidable Prop.
func (t *fnTr) cond(e ast.Expr) string {
	switch x := e.(type) {
	case *ast.Ident:
		if t.boolVars[x.Name] {
			return "(" + leanName(x.Name) + " = true)"
		}
	case *ast.ParenExpr:
		return "(" + t.cond(x.X) + ")"
	case *ast.UnaryExpr:
		if x.Op == token.NOT {
			return "(¬ " + t.cond(x.X) + ")"
		}
	case *ast.BinaryExpr:
		switch x.Op {
		case token.LAND:
			return "(" + t.cond(x.X) + " ∧ " + t.cond(x.Y) + ")"
		case token.LOR:
			return "(" + t.cond(x.X) + " ∨ " + t.cond(x.Y) + ")"
		case token.LSS, token.GTR, token.LEQ, token.GEQ, token.EQL, token.NEQ:
			op := map[token.Token]string{token.LSS: "<", token.GTR: ">", token.LEQ: "≤", token.GEQ: "≥", token.EQL: "=", token.NEQ: "≠"}[x.Op]
			return "(" + t.intExpr(x.X) + " " + op + " " + t.intExpr(x.Y) + ")"
		}
	}
	t.fail("unsupported condition %T", e)
	return "True"
}

func singleReturn(b *ast.BlockStmt) (ast.Expr, bool) {
	if b == nil || len(b.List) != 1 {
		return nil, false
	}
	r, ok := b.List[0].(*ast.ReturnStmt)
	if !ok || len(r.Results) != 1 {
		return nil, false
	}
	return r.Results[0], true
}

func (t *fnTr) assign(s *ast.AssignStmt) (string, string, bool) {
	if len(s.Lhs) != 1 || len(s.Rhs) != 1 {
		return "", "", false
	}
	id, ok := s.Lhs[0].(*ast.Ident)
	if !ok {
		return "", "", false
	}
	n := leanName(id.Name)
	switch s.Tok {
	case token.DEFINE, token.ASSIGN:
		return n, t.intExpr(s.Rhs[0]), true
	case token.ADD_ASSIGN:
		return n, "(" + n + " + " + t.intExpr(s.Rhs[0]) + ")", true
	case token.SUB_ASSIGN:
		return n, "(" + n + " - " + t.intExpr(s.Rhs[0]) + ")", true
	}
	return "", "", false
}

// body translates a statement list into a Lean term (indent = current indentation).
func (t *fnTr) body(stmts []ast.Stmt, ind string) string {
	if len(stmts) == 0 {
		return t.fail("function falls off its end")
	}
	rest := stmts[1:]
	switch s := stmts[0].(type) {
	case *ast.ReturnStmt:
		if len(s.Results) == 1 {
			return ind + t.intExpr(s.Results[0])
		}
	case *ast.AssignStmt:
		if n, e, ok := t.assign(s); ok {
			return ind + "let " + n + " : Int := " + e + "\n" + t.body(rest, ind)
		}
	case *ast.IfStmt:
		if s.Init != nil {
			break
		}
		if a, ok := singleReturn(s.Body); ok {
			if eb, ok2 := s.Else.(*ast.BlockStmt); ok2 {
				if b, ok3 := singleReturn(eb); ok3 && len(rest) == 0 {
					return ind + "if " + t.cond(s.Cond) + " then " + t.intExpr(a) + " else " + t.intExpr(b)
				}
			} else if s.Else == nil {
				return ind + "if " + t.cond(s.Cond) + " then " + t.intExpr(a) + " else\n" + t.body(rest, ind)
			}
		}
		if s.Else == nil && len(s.Body.List) == 1 {
			if as, ok := s.Body.List[0].(*ast.AssignStmt); ok && as.Tok != token.DEFINE {
				if n, e, ok := t.assign(as); ok {
					return ind + "let " + n + " : Int := if " + t.cond(s.Cond) + " then " + e + " else " + n + "\n" + t.body(rest, ind)
				}
			}
		}
	}
	return t.fail("unsupported statement %T", stmts[0])
}


func translateFunc(root *pkgInfo, name string, known map[string]bool) string {
	fd := findFunc(root, name)
	if fd == nil || fd.Body == nil {
		return fmt.Sprintf("def %s_untranslatable := true -- function not found\n", name)
	}
	t := &fnTr{strParams: map[string]bool{}, boolVars: map[string]bool{}, known: known}
	var params []string
	for _, fl := range fd.Type.Params.List {
		ty, _ := fl.Type.(*ast.Ident)
		for _, n := range fl.Names {
			switch {
			case ty != nil && ty.Name == "int":
				params = append(params, "("+leanName(n.Name)+" : Int)")
			case ty != nil && ty.Name == "bool":
				params = append(params, "("+leanName(n.Name)+" : Bool)")
				t.boolVars[n.Name] = true
			case ty != nil && ty.Name == "string":
				params = append(params, "("+n.Name+"_len : Nat)")
				t.strParams[n.Name] = true
			default:
				t.fail("unsupported parameter type")
			}
		}
	}
	if fd.Type.Results == nil || len(fd.Type.Results.List) != 1 {
		t.fail("unsupported result list")
	} else if id, ok := fd.Type.Results.List[0].Type.(*ast.Ident); !ok || id.Name != "int" {
		t.fail("unsupported result type")
	}
	body := t.body(fd.Body.List, "  ")
	if t.err != nil {
		return fmt.Sprintf("def %s_untranslatable := true -- %v\n", name, t.err)
	}
	known[name] = true
	return fmt.Sprintf("def %s %s : Int :=\n%s\n", name, strings.Join(params, " "), body)
}

// further generated files are added here as properties need them
func emitExtraC15(root *pkgInfo) {
	var sb strings.Builder
	sb.WriteString("-- GENERATED by /verif/tools/extract (extra.go) from /repo utils.go, stringlib.go (go/ast); do not edit\n")
	sb.WriteString("-- Go `int` is rendered as `Int` (no overflow), a string parameter as its length.\n")
	sb.WriteString("namespace GLua.Generated\n")
	known := map[string]bool{}
	for _, fn := range []string{"intMin", "intMax", "luaIndex2StringIndex"} {
		sb.WriteString(translateFunc(root, fn, known))
	}
	sb.WriteString("end GLua.Generated\n")
	writeIfChanged(filepath.Join(outDir, "StrIndex.lean"), sb.String())
}

func init() { extraEmitters = append(extraEmitters, emitExtraC15) }
