#!/bin/bash
# integrate_files.sh <Cxx> — copy a builder's deliverables from /scratch/b/<Cxx>/verif into /verif (not Driver.lean / GLua.lean / go.mod)
P=$1; B=/scratch/b/$P/verif; V=/verif
cd $B || exit 2
# Lean: every file that is new or differs, except the hand-merged ones and generated output
(cd lean && find GLua -name '*.lean' | while read f; do
  case "$f" in GLua/Generated/*) continue;; esac
  if [ ! -f $V/lean/$f ]; then mkdir -p $V/lean/$(dirname $f); cp $f $V/lean/$f; echo "NEW  lean/$f";
  elif ! cmp -s $f $V/lean/$f; then echo "DIFF lean/$f (not copied)"; fi
done)
for f in harness/*.go; do
  b=$(basename $f)
  if [ ! -f $V/harness/$b ]; then cp $f $V/harness/$b; echo "NEW  harness/$b"; elif ! cmp -s $f $V/harness/$b; then echo "DIFF harness/$b (not copied)"; fi
done
[ -d corpus/$P ] && { mkdir -p $V/corpus; cp -r corpus/$P $V/corpus/; echo "corpus/$P copied"; }
[ -d corpus/${P}M ] && { cp -r corpus/${P}M $V/corpus/; echo "corpus/${P}M copied"; }
[ -f notes/$P.md ] && { mkdir -p $V/notes; cp notes/$P.md $V/notes/; echo "notes copied"; }
mkdir -p $V/fixes; cp fixes/* $V/fixes/ 2>/dev/null
echo "--- Driver.lean diff:"; diff $V/lean/Driver.lean lean/Driver.lean
echo "--- tools/extract diff:"; diff -q $V/tools/extract/extra.go tools/extract/extra.go; diff -q $V/tools/extract/main.go tools/extract/main.go
echo "--- known_findings new lines:"; grep -vxFf $V/known_findings.jsonl known_findings.jsonl
echo "--- other diffs:"; for f in check setup.sh tools/audit.py BUILDER.md; do cmp -s $f $V/$f || echo "DIFF $f"; done
