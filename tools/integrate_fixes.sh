#!/bin/bash
# integrate_fixes.sh <builder verif dir> [name-filter]  — apply fixes/*.diff to /repo one by one as fix: commits (tests must pass)
B=$1; F=${2:-}
export GOFLAGS=-mod=mod GOPROXY=off GOSUMDB=off
cd /repo || exit 2
for d in $B/fixes/*$F*.diff; do
  [ -f "$d" ] || continue
  case "$d" in *hooks*) continue;; esac
  msg=${d%.diff}.msg
  if ! git diff --quiet; then echo "repo dirty"; exit 2; fi
  if ! (git apply "$d" 2>/dev/null || git apply -3 "$d" 2>/dev/null); then echo "DOES NOT APPLY: $d"; git checkout -- . ; continue; fi
  if ! go build ./... ; then echo "BUILD FAILED: $d"; git checkout -- .; continue; fi
  if ! go build -tags verif ./... ; then echo "BUILD(verif) FAILED: $d"; git checkout -- .; continue; fi
  res=$(go test -vet=off -count=1 . 2>&1 | tail -1)
  case "$res" in ok*) ;; *) echo "TESTS FAILED: $d: $res"; git checkout -- .; continue;; esac
  git add -A
  if [ -f "$msg" ]; then git commit -q -F "$msg"; else git commit -q -m "fix: $(basename $d .diff)"; fi
  echo "APPLIED $(basename $d) as $(git rev-parse --short HEAD)"
done
