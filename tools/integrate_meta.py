#!/usr/bin/env python3
"""integrate_meta.py <Cxx> <EngineModule> <field> <word>  — register engine in Driver.lean and merge known findings"""
import sys,re,subprocess,json,os
P,mod,field,word=sys.argv[1:5]
B='/scratch/b/%s/verif'%P
d=open('/verif/lean/Driver.lean').read()
if mod not in d:
    d=d.replace("import GLua.Engines.SemEng\n","import GLua.Engines.SemEng\nimport GLua.Engines.%s\n"%mod)
    d=d.replace("  tbl : TableEng.St := []\n","  tbl : TableEng.St := []\n  %s : %s.St := {}\n"%(field,mod))
    d=d.replace('''  | "S" :: r => (s, SemEng.handle r)''','''  | "S" :: r => (s, SemEng.handle r)
  | "%s" :: r => let (t, v) := %s.handle s.%s r; ({ s with %s := t }, v.show)'''%(word,mod,field,field))
    open('/verif/lean/Driver.lean','w').write(d)
have=open('/verif/known_findings.jsonl').read()
log=subprocess.run(['git','-C','/repo','log','--format=%h %s'],capture_output=True,text=True).stdout.splitlines()
new=[]
for l in open(B+'/known_findings.jsonl'):
    l=l.strip()
    if not l or l in have: continue
    try: e=json.loads(l)
    except Exception: continue
    if any(json.loads(x).get('id')==e.get('id') and json.loads(x).get('property')==e.get('property') for x in have.splitlines() if x.strip()): continue
    c=e.get('commit','')
    m=re.search(r'fixes/([\w.-]+)\.diff',c)
    if m:
        msgf=B+'/fixes/'+m.group(1)+'.msg'
        if os.path.exists(msgf):
            subj=open(msgf).readline().strip()
            hit=[x.split()[0] for x in log if x.split(' ',1)[1].strip()==subj]
            if hit: e['commit']=hit[0]; e['status']='fixed'
            else: e['status']='open'; e['commit']=''
    if e.get('status')=='fixed' and not e.get('class','').startswith('fixed:'):
        e['class']='fixed: property=%s %s %s'%(e['property'],e.get('commit',''),e['class'].replace('fix proposed: ',''))
    new.append(json.dumps(e))
open('/verif/known_findings.jsonl','a').write(''.join(x+'\n' for x in new))
print('added',len(new),'findings')
