#!/bin/bash
# tools/matrix.sh [ids…] — run each seeded change (seeded/<id>/patch.diff) against its property's quick check in a
# scratch worktree of /repo (never touches /repo itself) and print a detection matrix.  Development tool.
ROOT=${VERIF_ROOT:-/verif}
MX=/scratch/mx; mkdir -p $MX/ev $MX/log
ids=${@:-$(ls $ROOT/seeded | grep -v MATRIX)}
run_one() {
  id=$1; prop=${id%%-*}
  wt=$MX/wt_$id
  rm -rf $wt; git -C /repo worktree add --detach $wt HEAD >/dev/null 2>&1
  (cd $wt && (git apply $ROOT/seeded/$id/patch.diff 2>/dev/null || git apply -3 $ROOT/seeded/$id/patch.diff 2>/dev/null)) || { echo "$id PATCH-FAILED"; git -C /repo worktree remove --force $wt; return; }
  start=$(date +%s)
  VERIF_REPO=$wt VERIF_EVIDENCE_DIR=$MX/ev/$id $ROOT/check $prop --tier ${TIER:-quick} ${SEED:+--seed $SEED} > $MX/log/$id.s${SEED:-1}.log 2>&1; rc=$?
  end=$(date +%s)
  v=$(grep -c '^VIOLATION' $MX/log/$id.s${SEED:-1}.log)
  nf=$(grep -c 'no-failing-input-found' $MX/log/$id.s${SEED:-1}.log)
  echo "$id rc=$rc violations=$v no-failing-input=$nf secs=$((end-start))"
  git -C /repo worktree remove --force $wt
  TAG=$(echo "$wt" | md5sum | cut -c1-8); rm -f $ROOT/bin/glcheck.$TAG $ROOT/bin/glcheck-race.$TAG $ROOT/.work/go.$TAG.*
}
export -f run_one; export ROOT MX TIER SEED
echo $ids | tr ' ' '\n' | xargs -P ${PAR:-4} -I{} bash -c 'run_one {}'
