#!/usr/bin/env python3
"""merge_extract.py <Cxx>: turn a builder's tools/extract/extra.go into /verif/tools/extract/extra_<cxx>.go"""
import re,sys
P=sys.argv[1]
src=open('/scratch/b/%s/verif/tools/extract/extra.go'%P).read()
mine=open('/verif/tools/extract/extra.go').read()+open('/verif/tools/extract/main.go').read()
import glob
for f in glob.glob('/verif/tools/extract/extra_*.go'):
    if f.endswith('extra_%s.go'%P.lower()): continue
    mine+=open(f).read()
defined=set(re.findall(r'^func (\w+)\(',mine,re.M))
# split into top-level chunks
def split_funcs(s):
    out=[];i=0
    for m in re.finditer(r'^func ',s,re.M):
        pass
    return out
# remove top-level funcs whose names are already defined (except emitExtra which is renamed)
def remove_func(s,name):
    m=re.search(r'^func %s\('%name,s,re.M)
    if not m: return s
    # find matching closing brace at column 0
    end=re.search(r'^}\n',s[m.start():],re.M)
    # include preceding comment lines
    start=m.start()
    lines=s[:start].split('\n')
    while len(lines)>1 and lines[-2].startswith('//'):
        lines.pop(-2)
    return '\n'.join(lines)+s[m.start()+end.end():]
src=re.sub(r'\bemitExtra\b','emitExtra%s'%P,src)
for name in re.findall(r'^func (\w+)\(',src,re.M):
    if name in defined and name!='emitExtra%s'%P:
        src=remove_func(src,name); print('dropped duplicate',name)
src+='\nfunc init() { extraEmitters = append(extraEmitters, emitExtra%s) }\n'%P
open('/verif/tools/extract/extra_%s.go'%P.lower(),'w').write(src)
