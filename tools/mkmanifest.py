#!/usr/bin/env python3
"""Regenerates MANIFEST.json from tools/claims.json (per-property texts) + properties.jsonl."""
import json
props=[json.loads(l) for l in open('/verif/properties.jsonl')]
claims=json.load(open('/verif/tools/claims.json'))
checks=[]; na=[]
for p in props:
    c=claims.get(p['id'])
    if not c or c.get('not_applicable'):
        na.append({"property_id":p['id'],"reason":(c or {}).get('not_applicable',"check not built yet in this session (work in progress; see DESIGN.md §9 build order)")})
        continue
    checks.append({
      "property_id":p['id'],
      "quick_cmd":"./check %s --tier quick"%p['id'],
      "thorough_cmd":"./check %s --tier thorough"%p['id'],
      "evidence_file":"/verif/evidence/%s.json"%p['id'],
      "replay_cmd_template":"./check %s --replay {path}"%p['id'],
      "engine":"glua-lean",
      "level_claimed":{"category":"proof","text":c['text'],"design_ref":"DESIGN.md §5 %s; notes/%s.md"%(p['id'],p['id'])},
      "level_note":c['note'],
      "technique":c.get('technique',"machine-checked proof in Lean 4 (Model refines Spec, theorems in lean/GLua/Props/%s.lean) + differential correspondence Impl = Model = Spec on every run"%p['id'])})
m={"version":1,
 "setup_cmd":"./setup.sh",
 "hooks":{"guard":"verif","enable":"go build -tags verif (the harness /verif/harness is built against /repo's working tree with this tag; hooks live in /repo/verif_hooks.go)",
          "baseline_off_cmd":"cd /repo && GOFLAGS=-mod=mod go test -vet=off -count=1 -timeout 25m ./...","source_commits":claims.get('_hook_commits',[]),"add_only":True},
 "engines":[{"name":"glua-lean","path":"/verif/lean","serves_properties":[c['property_id'] for c in checks],"kind_free_text":"Lean 4 lake project GLua (Spec / Model / Proofs / Props + compiled line-protocol driver gluadrv); Go correspondence harness /verif/harness (in-process calls into /repo built with -tags verif); go/ast extractor /verif/tools/extract regenerates lean/GLua/Generated on every run"}],
 "checks":checks,
 "notes":"Every check: extract facts from /repo → lake build Props.<id> (kernel re-checks theorems against regenerated definitions) → axiom audit → harness built from /repo's working tree → correspondence Impl=Model (exact) and Impl=Spec; known findings in known_findings.jsonl; see DESIGN.md.",
 "not_applicable":na}
json.dump(m,open('/verif/MANIFEST.json','w'),indent=1)
print(len(checks),'checks',len(na),'not applicable')
