#!/usr/bin/env python3
"""tools/mkmatrix.py <matrix-result-file-seed1> [<matrix-result-file-seed2> ...]
Writes seeded/MATRIX.md and fills `detected_by` in every seeded/<id>/meta.json from the logs of tools/matrix.sh
(/scratch/mx/log/<id>.s<seed>.log).  Development tool."""
import json, os, re, sys, glob, collections
ROOT = os.environ.get("VERIF_ROOT", "/verif")
res = collections.OrderedDict()
for k, f in enumerate(sys.argv[1:]):
    seed = re.search(r"seed(\d+)", f)
    seed = int(seed.group(1)) if seed else k + 1
    for line in open(f):
        m = re.match(r"(\S+) rc=(\d+) violations=(\d+) no-failing-input=(\d+) secs=(\d+)", line)
        if m:
            res.setdefault(m.group(1), {})[seed] = dict(rc=int(m.group(2)), v=int(m.group(3)), nf=int(m.group(4)), secs=int(m.group(5)))
        elif "PATCH-FAILED" in line:
            res.setdefault(line.split()[0], {})[seed] = dict(rc=-1, v=0, nf=0, secs=0)
def kinds(id, seed):
    p = f"/scratch/mx/log/{id}.s{seed}.log"
    ks = collections.Counter()
    if os.path.exists(p):
        for line in open(p):
            m = re.match(r"VIOLATION property=\S+ replay=\S*/([a-z]+)-seed", line)
            if m: ks[m.group(1)] += 1
    return ks
rows = []
for id in sorted(res):
    meta_p = f"{ROOT}/seeded/{id}/meta.json"
    if not os.path.exists(meta_p): continue
    meta = json.load(open(meta_p))
    cells, det = [], []
    for seed in sorted(res[id]):
        r = res[id][seed]
        ks = kinds(id, seed)
        if r["rc"] == 1 and r["v"] > 0:
            how = ", ".join(f"{n}×{k}" for k, n in sorted(ks.items())) or f"{r['v']} violations"
            if r["nf"]: how += f" ({r['nf']} no-failing-input-found)"
            cells.append(f"seed {seed}: caught ({how})")
            det.append(f"./check {meta['property']} --tier quick --seed {seed}: exit 1, {how}")
        elif r["rc"] == -1:
            cells.append(f"seed {seed}: patch does not apply")
        else:
            cells.append(f"seed {seed}: MISSED")
            det.append(f"./check {meta['property']} --tier quick --seed {seed}: NOT detected")
    meta["detected_by"] = det
    json.dump(meta, open(meta_p, "w"), indent=1)
    summ = (meta.get("summary") or "").replace("\n", " ").replace("|", "\\|")
    rows.append(f"| {id} | {summ[:230]}{'…' if len(summ) > 230 else ''} | {'; '.join(cells)} |")
neutral = sorted(os.listdir(f"{ROOT}/seeded/_neutralised")) if os.path.isdir(f"{ROOT}/seeded/_neutralised") else []
out = ["# Seeded changes × checks", "",
       "Each row: one change written by an independent sub-agent that saw only the property text and a scratch worktree of /repo",
       "(never /verif), confirmed by the integrator (applies to the current /repo HEAD, builds, the 81 existing tests pass, its demonstration",
       "passes on the clean tree and fails with the change), then run against the property's *quick* check in a scratch worktree",
       "(`tools/matrix.sh`, `VERIF_REPO=<worktree>`).  `spec` = the implementation contradicts the Spec on a concrete input (the replay),",
       "`crash` = Go panic / hang / self-check of the harness on the real code, `model` = only Impl≠Model (reported with no-failing-input-found).", "",
       f"Active: {len(rows)}; caught on every seed tried: {sum(1 for r in rows if 'MISSED' not in r and 'apply' not in r)}.", "",
       "| id | change | quick check |", "|---|---|---|"] + rows
out += ["", "## Neutralised (no longer break the property on the current tree)", ""]
for n in neutral:
    m = json.load(open(f"{ROOT}/seeded/_neutralised/{n}/meta.json"))
    out.append(f"- **{n}** — {(m.get('neutralised') or m.get('note') or 'made harmless by a later fix: commit').strip()}")
open(f"{ROOT}/seeded/MATRIX.md", "w").write("\n".join(out) + "\n")
print(len(rows), "rows")
