#!/bin/bash
# tools/runall.sh [tier] [seed] — run every registered check on the current /repo tree in parallel; print one line each.
TIER=${1:-quick}; SEED=${2:-}
ROOT=${VERIF_ROOT:-/verif}; OUT=/scratch/runall; mkdir -p $OUT
one() { p=$1; s=$(date +%s); $ROOT/check $p --tier $TIER ${SEED:+--seed $SEED} > $OUT/$p.log 2>&1; rc=$?
  echo "$p rc=$rc violations=$(grep -c '^VIOLATION' $OUT/$p.log) known=$(grep -c '^KNOWN-FINDING' $OUT/$p.log) secs=$(( $(date +%s)-s ))"; }
export -f one; export ROOT OUT TIER SEED
printf "C%02d\n" $(seq 1 20) | xargs -P ${PAR:-6} -I{} bash -c 'one {}'
